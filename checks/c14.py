"""C14 - compression is transparent: decompressing any output gives the plain output (DESIGN 4/C14)."""
import os

from vlib import gen, pipeline, runner
from vlib.findings import Violation

PROP, LEVEL = 'C14', 'exploration'
MiB = 1 << 20


def make_data(r, n, style):
    if n == 0:
        return b''
    if style == 'zero':
        return bytes(n)
    if style == 'text':
        unit = b'C-DNS block data \x00\x01\x02 example.com. ' + bytes(r.getrandbits(8) for _ in range(16))
        return (unit * (n // len(unit) + 1))[:n]
    return r.getrandbits(8 * n).to_bytes(n, 'big')


def make_cases(tier, seed, wd):
    n = 500 if tier == 'quick' else 3000
    nbig = 6 if tier == 'quick' else 120
    cases, exps = [], []
    for i in range(n):
        r = gen.seeded(seed, 'C14', i)
        w = ['gzip', 'xz', 'none'][i % 3] if i % 10 else r.choice(['gzip', 'xz'])
        kind = r.choice(['name', 'fd'])
        big = i < nbig
        steps, parts, cur = [], [], []
        style = r.choice(['zero', 'text', 'random', 'random'])
        if big:
            # one write call of tens of MiB (scratch buffers must not scale with the chunk)
            size = [16 * MiB, 32 * MiB, 8 * MiB + 1, 24 * MiB, 16 * MiB - 1, 20 * MiB][i % 6] if (tier != 'quick' or w != 'xz') else 12 * MiB
            style = 'text' if w == 'xz' else r.choice(['text', 'random'])
            sizes = [r.choice([0, 1, 100]), size, r.choice([0, 5, 3000])]
            rots = set([2]) if r.random() < 0.5 else set()
        else:
            k = r.choice([0, 1, 2, 5, 20, 60])
            pick = lambda: r.choice([0, 1, 1, 2, 7, 100, 2047, 2048, 2049, 4096, 65535, 65536, 65537, 100000, 300000 if r.random() < 0.3 else 10])
            sizes = [pick() for _ in range(k)]
            if r.random() < 0.15:
                sizes = [1] * r.choice([10, 300])
            rots = set(j for j in range(len(sizes) + 1) if r.random() < 0.12)
            if len(rots) > 6:
                rots = set(sorted(rots)[:6])
        blob = make_data(r, sum(sizes), style)
        pos = 0
        for j, sz in enumerate(sizes):
            if j in rots:
                steps.append({'rot': True}); parts.append(b''.join(cur)); cur = []
            steps.append({'n': sz}); cur.append(blob[pos:pos + sz]); pos += sz
        if len(sizes) in rots:
            steps.append({'rot': True}); parts.append(b''.join(cur)); cur = []
        parts.append(b''.join(cur))
        dp = os.path.join(wd, 'in_%05d.bin' % i)
        with open(dp, 'wb') as f:
            f.write(blob)
        cases.append({'id': 'w%05d' % i, 'w': w, 'kind': kind, 'data': dp, 'out': os.path.join(wd, 'out_%05d' % i), 'steps': steps})
        exps.append((parts, w, kind, style, max(sizes) if sizes else 0))
    return cases, exps


def run(tier, seed):
    vs = []
    wd = runner.workdir('c14')
    try:
        cases, exps = make_cases(tier, seed, wd)
        res, crashes, wd2 = runner.run_cases('asan', 'writer', cases, 'c14w', timeout=1800)
        runner.cleanup(wd2)
        for c in crashes:
            parts, w, kind, style, mx = exps[c.case_index]
            vs.append(Violation(PROP, '%s:%s' % (PROP, c.key_tail()), '%s/%s writer died (largest chunk %d bytes): %s in %s' % (w, kind, mx, c.cls, c.func),
                                {'case': {k: v for k, v in cases[c.case_index].items() if k != 'data'}, 'largest_chunk': mx, 'report': c.excerpt}))
        # ---- a failing destination (/dev/full), then rotation to a healthy one: what reaches the new output must be exactly
        #      what was written after the rotation (nothing of the failed write may leak into the next stream)
        fcases, fexp = [], []
        combos = [(w, big, after) for w in ('gzip', 'xz', 'none') for big in (300000, 100000, 70000, 3000, 1000000) for after in ([], [0], [5], [2048, 100], [70000])]
        if tier != 'quick':
            combos = combos * 3
        for i, (w, big, after) in enumerate(combos):
            r = gen.seeded(seed, 'C14f', i)
            sizes = [big] + after
            blob = make_data(r, sum(sizes), r.choice(['random', 'random', 'text']))
            dp = os.path.join(wd, 'fin_%05d.bin' % i)
            with open(dp, 'wb') as f:
                f.write(blob)
            steps = [{'n': big}, {'rot': True}] + [{'n': x} for x in after]
            if r.random() < 0.4:
                steps += [{'rot': True}]
            fcases.append({'id': 'f%05d' % i, 'w': w, 'kind': 'fd', 'data': dp, 'out': os.path.join(wd, 'fout_%05d' % i), 'steps': steps,
                           'dev_full_first': True, 'continue_after_exception': True})
            fexp.append((blob[big:], w, big))
        fres, fcr, wd3 = runner.run_cases('asan', 'writer', fcases, 'c14f', timeout=900)
        runner.cleanup(wd3)
        for c in fcr:
            vs.append(Violation(PROP, '%s:after-failed-write:%s' % (PROP, c.key_tail()), 'writer died after a failed write and rotation: %s in %s' % (c.cls, c.func), {'case': {k: v for k, v in fcases[c.case_index].items() if k != 'data'}, 'report': c.excerpt}))
        fault_runs = 0
        for i, (case, (want, w, big)) in enumerate(zip(fcases, fexp)):
            r = fres.get(i)
            if r is None:
                continue
            small = {k: v for k, v in case.items() if k != 'data'}
            if not any(isinstance(x, dict) and 'exc' in x for x in r['log'][:1]):
                if w != 'none' and big < 100000:
                    continue           # small compressible chunk: nothing had to be written yet, no failure - fine
                if not any(isinstance(x, dict) for x in r['log']):
                    vs.append(Violation(PROP, '%s:write-to-full-device-not-reported:%s' % (PROP, w), 'writing %d bytes to /dev/full through the %s writer raised nothing' % (big, w), {'case': small}))
                    continue
            fault_runs += 1
            got = b''
            bad = None
            for path in r['outs'][1:]:
                try:
                    got += pipeline.decompress(w, open(path, 'rb').read())
                except (OSError, pipeline.StreamError) as x:
                    bad = str(x)
            if bad:
                vs.append(Violation(PROP, '%s:after-failed-write:bad-stream:%s' % (PROP, w), 'output opened after a failed write is not a complete stream: %s' % bad, {'case': small}))
            elif got != want:
                vs.append(Violation(PROP, '%s:after-failed-write:content:%s' % (PROP, w), 'after a failed %d-byte write and a rotation, the new output decompresses to %d bytes, the writes after the rotation amount to %d' % (big, len(got), len(want)), {'case': small}))
        # ---- rotation of a named output onto the very name it is writing (clock-derived names within one tick): the output closed by
        #      the rotation is one complete stream with the bytes written so far; the next one replaces it under the same name
        scases, sexp = [], []
        for i in range(45 if tier == 'quick' else 300):
            r = gen.seeded(seed, 'C14s', i)
            w = ['gzip', 'xz', 'none'][i % 3]
            segs = [[r.choice([0, 1, 7, 100, 2048, 5000, 70000]) for _ in range(r.choice([0, 1, 1, 3]))] for _ in range(r.choice([2, 2, 3]))]
            blob = make_data(r, sum(sum(x) for x in segs), r.choice(['text', 'random']))
            dp = os.path.join(wd, 'sin_%05d.bin' % i)
            with open(dp, 'wb') as f:
                f.write(blob)
            steps, parts, pos = [], [], 0
            for k, sg in enumerate(segs):
                if k:
                    steps.append({'rot': True, 'same': True})
                steps += [{'n': x} for x in sg]
                parts.append(blob[pos:pos + sum(sg)])
                pos += sum(sg)
            scases.append({'id': 's%05d' % i, 'w': w, 'kind': 'name', 'data': dp, 'out': os.path.join(wd, 'sout_%05d' % i), 'steps': steps})
            sexp.append((parts, w))
        sres, scr, wd5 = runner.run_cases('asan', 'writer', scases, 'c14s', timeout=900)
        runner.cleanup(wd5)
        for c in scr:
            vs.append(Violation(PROP, '%s:same-name-rotation:%s' % (PROP, c.key_tail()), 'writer died when rotated onto its current name: %s in %s' % (c.cls, c.func), {'case': {k: v for k, v in scases[c.case_index].items() if k != 'data'}, 'report': c.excerpt}))
        same_rot = 0
        for i, (case, (parts, w)) in enumerate(zip(scases, sexp)):
            r = sres.get(i)
            if r is None:
                continue
            small = {k: v for k, v in case.items() if k != 'data'}
            excs = [x for x in r['log'] if isinstance(x, dict) and 'exc' in x]
            if excs:
                vs.append(Violation(PROP, '%s:same-name-rotation:exception:%s' % (PROP, w), 'rotation onto the current name threw %s' % excs[0], {'case': small}))
                continue
            snaps = [x for x in r['log'] if isinstance(x, dict) and x.get('rot_same')]
            files = [(x['snap'] if x['final_exists'] else None) for x in snaps] + [r['outs'][0]]
            if snaps and not any(x['final_exists'] for x in snaps):
                # a writer for which a rotation onto its own name closes nothing (it simply goes on writing) is consistent as long
                # as what it finally publishes is ONE complete stream with everything written
                files, parts = [r['outs'][0]], [b''.join(parts)]
            for k, (path, want) in enumerate(zip(files, parts)):
                same_rot += 1
                what = 'output closed by rotation %d onto its own name' % k if k < len(parts) - 1 else 'last output'
                try:
                    raw = open(path, 'rb').read() if path else None
                except OSError:
                    raw = None
                if raw is None:
                    vs.append(Violation(PROP, '%s:same-name-rotation:missing:%s' % (PROP, w), '%s does not exist under its final name' % what, {'case': small}))
                    continue
                try:
                    data = pipeline.decompress(w, raw)
                except pipeline.StreamError as x:
                    vs.append(Violation(PROP, '%s:same-name-rotation:bad-stream:%s' % (PROP, w), '%s is not one complete %s stream: %s' % (what, w, x), {'case': small}))
                    continue
                if data != want:
                    vs.append(Violation(PROP, '%s:same-name-rotation:content:%s' % (PROP, w), '%s holds %d bytes, the writes to it amount to %d' % (what, len(data), len(want)), {'case': small}))
        # ---- the same (small) sequences once more with 8 independent writer instances working concurrently in one process
        small_idx = [i for i, e in enumerate(exps) if e[4] < MiB][:160 if tier == 'quick' else 1200]
        ccases = []
        for i in small_idx:
            c = dict(cases[i])
            c['id'] = 'c' + c['id'][1:]
            c['out'] = c['out'] + '_conc'
            ccases.append(c)
        cres, ccr, wd4 = runner.run_cases('asan', 'writer', ccases, 'c14c', timeout=900, shards=4, env={'VDRV_THREADS': '8'})
        runner.cleanup(wd4)
        for c in ccr:
            vs.append(Violation(PROP, '%s:concurrent-writers:%s' % (PROP, c.key_tail()), 'independent writers used from 8 threads: %s in %s' % (c.cls, c.func), {'report': c.excerpt}))
        conc_checked = 0
        for j, i in enumerate(small_idx):
            r = cres.get(j)
            if r is None or any(isinstance(x, dict) for x in r['log']):
                if r is not None:
                    vs.append(Violation(PROP, '%s:concurrent-writers:exception' % PROP, 'a writer threw while 8 independent writers were working concurrently: %s' % [x for x in r['log'] if isinstance(x, dict)][:1], {'case': {k: v for k, v in ccases[j].items() if k != 'data'}}))
                continue
            parts, w = exps[i][0], exps[i][1]
            for path, want in zip(r['outs'], parts):
                conc_checked += 1
                try:
                    data = pipeline.decompress(w, open(path, 'rb').read())
                except (OSError, pipeline.StreamError) as x:
                    vs.append(Violation(PROP, '%s:concurrent-writers:bad-stream:%s' % (PROP, w), 'output written while 8 independent writers worked concurrently is not a complete stream: %s' % x, {'case': {k: v for k, v in ccases[j].items() if k != 'data'}}))
                    continue
                if data != want:
                    vs.append(Violation(PROP, '%s:concurrent-writers:content:%s' % (PROP, w), 'output written while 8 independent writers worked concurrently decompresses to other bytes than were written', {'case': {k: v for k, v in ccases[j].items() if k != 'data'}}))
        outs_checked = 0
        total = 0
        biggest = 0
        empties = 0
        for i, (case, (parts, w, kind, style, mx)) in enumerate(zip(cases, exps)):
            r = res.get(i)
            if r is None:
                continue
            small = {k: v for k, v in case.items() if k != 'data'}
            small['steps'] = small['steps'][:30]
            if any(isinstance(x, dict) for x in r['log']):
                x = [x for x in r['log'] if isinstance(x, dict)][0]
                vs.append(Violation(PROP, '%s:exception:%s:%s' % (PROP, w, x.get('exc')), '%s/%s writer threw %s (%s) in a fault-free run' % (w, kind, x.get('exc'), x.get('what')), {'case': small}))
                continue
            if len(r['outs']) != len(parts):
                vs.append(Violation(PROP, '%s:output-count' % PROP, 'expected %d outputs, driver produced %d' % (len(parts), len(r['outs'])), {'case': small}))
                continue
            for path, want in zip(r['outs'], parts):
                outs_checked += 1
                if kind == 'name':
                    suffix = {'gzip': '.gz', 'xz': '.xz', 'none': ''}[w]
                    if suffix and not path.endswith(suffix):
                        vs.append(Violation(PROP, '%s:suffix:%s' % (PROP, w), 'named %s output lacks the %s suffix' % (w, suffix), {'case': small}))
                    if os.path.exists(path + '.part'):
                        vs.append(Violation(PROP, '%s:part-left:%s' % (PROP, w), '.part file left behind after close', {'case': small}))
                try:
                    raw = open(path, 'rb').read()
                except OSError:
                    vs.append(Violation(PROP, '%s:missing-output:%s:%s' % (PROP, w, kind), 'output %s does not exist after close' % os.path.basename(path), {'case': small}))
                    continue
                try:
                    data = pipeline.decompress(w, raw)
                except pipeline.StreamError as x:
                    klass = 'empty-output' if not raw else 'bad-stream'
                    vs.append(Violation(PROP, '%s:%s:%s' % (PROP, klass, w), '%s output (%d bytes on disk, %d expected plain) is not one complete stream: %s' % (w, len(raw), len(want), x), {'case': small}))
                    continue
                total += len(data)
                biggest = max(biggest, mx)
                if not want:
                    empties += 1
                if data != want:
                    first = next((k for k in range(min(len(data), len(want))) if data[k] != want[k]), min(len(data), len(want)))
                    vs.append(Violation(PROP, '%s:content:%s:%s' % (PROP, w, 'big-chunk' if mx >= MiB else 'small-chunks'),
                                        '%s/%s output decompresses to %d bytes, the writes amount to %d; first difference at %d (largest chunk %d)' % (w, kind, len(data), len(want), first, mx), {'case': small}))
        obs = dict(sequences=len(cases), outputs_checked_around_same_name_rotations=same_rot, sequences_with_failing_first_destination=fault_runs, outputs_checked_from_concurrent_writers=conc_checked, outputs_decompressed_and_compared=outs_checked, plain_bytes=total, largest_single_write=biggest, empty_outputs=empties,
                   writers={w: sum(1 for e in exps if e[1] == w) for w in ('gzip', 'xz', 'none')})
        cov = dict(evaluations=len(cases), distinct_nontrivial=len(cases),
                   rule='chunk sequences (compressible, incompressible, empty; chunk sizes 0 B .. 32 MiB; 0-6 rotations) through Gzip/Xz/CborOutputWriter, named and descriptor outputs; '
                        'oracle: Python zlib.decompressobj(31) / lzma FORMAT_XZ: exactly one complete stream, nothing after it, decompressed bytes == the bytes written; suffix and .part checks; all sequences distinct (seeded)',
                   samples=[{k: v for k, v in cases[0].items() if k != 'data'}, {'w': cases[7]['w'], 'kind': cases[7]['kind'], 'steps': cases[7]['steps'][:10]}], observed=obs)
        return dict(violations=vs, coverage=cov)
    finally:
        runner.cleanup(wd)
