"""C14 - compression is transparent: decompressing any output gives the plain output (DESIGN 4/C14)."""
import os

from vlib import gen, pipeline, runner
from vlib.findings import Violation

PROP, LEVEL = 'C14', 'exploration'
MiB = 1 << 20


def make_data(r, n, style):
    if n == 0:
        return b''
    if style == 'zero':
        return bytes(n)
    if style == 'text':
        unit = b'C-DNS block data \x00\x01\x02 example.com. ' + bytes(r.getrandbits(8) for _ in range(16))
        return (unit * (n // len(unit) + 1))[:n]
    return r.getrandbits(8 * n).to_bytes(n, 'big')


def make_cases(tier, seed, wd):
    n = 300 if tier == 'quick' else 3000
    nbig = 6 if tier == 'quick' else 120
    cases, exps = [], []
    for i in range(n):
        r = gen.seeded(seed, 'C14', i)
        w = ['gzip', 'xz', 'none'][i % 3] if i % 10 else r.choice(['gzip', 'xz'])
        kind = r.choice(['name', 'fd'])
        big = i < nbig
        steps, parts, cur = [], [], []
        style = r.choice(['zero', 'text', 'random', 'random'])
        if big:
            # one write call of tens of MiB (scratch buffers must not scale with the chunk)
            size = [16 * MiB, 32 * MiB, 8 * MiB + 1, 24 * MiB, 16 * MiB - 1, 20 * MiB][i % 6] if (tier != 'quick' or w != 'xz') else 12 * MiB
            style = 'text' if w == 'xz' else r.choice(['text', 'random'])
            sizes = [r.choice([0, 1, 100]), size, r.choice([0, 5, 3000])]
            rots = set([2]) if r.random() < 0.5 else set()
        else:
            k = r.choice([0, 1, 2, 5, 20, 60])
            pick = lambda: r.choice([0, 1, 1, 2, 7, 100, 2047, 2048, 2049, 4096, 65535, 65536, 65537, 100000, 300000 if r.random() < 0.3 else 10])
            sizes = [pick() for _ in range(k)]
            if r.random() < 0.15:
                sizes = [1] * r.choice([10, 300])
            rots = set(j for j in range(len(sizes) + 1) if r.random() < 0.12)
            if len(rots) > 6:
                rots = set(sorted(rots)[:6])
        blob = make_data(r, sum(sizes), style)
        pos = 0
        for j, sz in enumerate(sizes):
            if j in rots:
                steps.append({'rot': True}); parts.append(b''.join(cur)); cur = []
            steps.append({'n': sz}); cur.append(blob[pos:pos + sz]); pos += sz
        if len(sizes) in rots:
            steps.append({'rot': True}); parts.append(b''.join(cur)); cur = []
        parts.append(b''.join(cur))
        dp = os.path.join(wd, 'in_%05d.bin' % i)
        with open(dp, 'wb') as f:
            f.write(blob)
        cases.append({'id': 'w%05d' % i, 'w': w, 'kind': kind, 'data': dp, 'out': os.path.join(wd, 'out_%05d' % i), 'steps': steps})
        exps.append((parts, w, kind, style, max(sizes) if sizes else 0))
    return cases, exps


def run(tier, seed):
    vs = []
    wd = runner.workdir('c14')
    try:
        cases, exps = make_cases(tier, seed, wd)
        res, crashes, wd2 = runner.run_cases('asan', 'writer', cases, 'c14w', timeout=1800)
        runner.cleanup(wd2)
        for c in crashes:
            parts, w, kind, style, mx = exps[c.case_index]
            vs.append(Violation(PROP, '%s:%s' % (PROP, c.key_tail()), '%s/%s writer died (largest chunk %d bytes): %s in %s' % (w, kind, mx, c.cls, c.func),
                                {'case': {k: v for k, v in cases[c.case_index].items() if k != 'data'}, 'largest_chunk': mx, 'report': c.excerpt}))
        outs_checked = 0
        total = 0
        biggest = 0
        empties = 0
        for i, (case, (parts, w, kind, style, mx)) in enumerate(zip(cases, exps)):
            r = res.get(i)
            if r is None:
                continue
            small = {k: v for k, v in case.items() if k != 'data'}
            small['steps'] = small['steps'][:30]
            if any(isinstance(x, dict) for x in r['log']):
                x = [x for x in r['log'] if isinstance(x, dict)][0]
                vs.append(Violation(PROP, '%s:exception:%s:%s' % (PROP, w, x.get('exc')), '%s/%s writer threw %s (%s) in a fault-free run' % (w, kind, x.get('exc'), x.get('what')), {'case': small}))
                continue
            if len(r['outs']) != len(parts):
                vs.append(Violation(PROP, '%s:output-count' % PROP, 'expected %d outputs, driver produced %d' % (len(parts), len(r['outs'])), {'case': small}))
                continue
            for path, want in zip(r['outs'], parts):
                outs_checked += 1
                if kind == 'name':
                    suffix = {'gzip': '.gz', 'xz': '.xz', 'none': ''}[w]
                    if suffix and not path.endswith(suffix):
                        vs.append(Violation(PROP, '%s:suffix:%s' % (PROP, w), 'named %s output lacks the %s suffix' % (w, suffix), {'case': small}))
                    if os.path.exists(path + '.part'):
                        vs.append(Violation(PROP, '%s:part-left:%s' % (PROP, w), '.part file left behind after close', {'case': small}))
                try:
                    raw = open(path, 'rb').read()
                except OSError:
                    vs.append(Violation(PROP, '%s:missing-output:%s:%s' % (PROP, w, kind), 'output %s does not exist after close' % os.path.basename(path), {'case': small}))
                    continue
                try:
                    data = pipeline.decompress(w, raw)
                except pipeline.StreamError as x:
                    klass = 'empty-output' if not raw else 'bad-stream'
                    vs.append(Violation(PROP, '%s:%s:%s' % (PROP, klass, w), '%s output (%d bytes on disk, %d expected plain) is not one complete stream: %s' % (w, len(raw), len(want), x), {'case': small}))
                    continue
                total += len(data)
                biggest = max(biggest, mx)
                if not want:
                    empties += 1
                if data != want:
                    first = next((k for k in range(min(len(data), len(want))) if data[k] != want[k]), min(len(data), len(want)))
                    vs.append(Violation(PROP, '%s:content:%s:%s' % (PROP, w, 'big-chunk' if mx >= MiB else 'small-chunks'),
                                        '%s/%s output decompresses to %d bytes, the writes amount to %d; first difference at %d (largest chunk %d)' % (w, kind, len(data), len(want), first, mx), {'case': small}))
        obs = dict(sequences=len(cases), outputs_decompressed_and_compared=outs_checked, plain_bytes=total, largest_single_write=biggest, empty_outputs=empties,
                   writers={w: sum(1 for e in exps if e[1] == w) for w in ('gzip', 'xz', 'none')})
        cov = dict(evaluations=len(cases), distinct_nontrivial=len(cases),
                   rule='chunk sequences (compressible, incompressible, empty; chunk sizes 0 B .. 32 MiB; 0-6 rotations) through Gzip/Xz/CborOutputWriter, named and descriptor outputs; '
                        'oracle: Python zlib.decompressobj(31) / lzma FORMAT_XZ: exactly one complete stream, nothing after it, decompressed bytes == the bytes written; suffix and .part checks; all sequences distinct (seeded)',
                   samples=[{k: v for k, v in cases[0].items() if k != 'data'}, {'w': cases[7]['w'], 'kind': cases[7]['kind'], 'steps': cases[7]['steps'][:10]}], observed=obs)
        return dict(violations=vs, coverage=cov)
    finally:
        runner.cleanup(wd)
