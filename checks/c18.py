"""C18 - cdns-merge preserves every block and record; cdns-itemcount counts are true (DESIGN 4/C18)."""
import concurrent.futures as cf
import json
import os
import re

from vlib import build, cbor, cdns_schema, gen, pipeline, runner
from vlib.findings import Violation
from .common import ExportRun

PROP, LEVEL = 'C18', 'exploration'


def make_inputs(tier, seed, wd):
    """valid files with assorted versions / parameter sets; returns list of dict(path, data, doc, version)"""
    n = 100 if tier == 'quick' else 600
    cases = []
    sib_of = {}
    for i in range(n):
        r = gen.seeded(seed, 'C18in', i)
        pre = gen.gen_preamble(r, nbps=r.choice([1, 1, 2, 3]))
        ver = r.choice([(1, 0, 1), (1, 0, 1), (1, 0, 1), (1, 0, None), (1, 0, None), (1, 0, 0), (1, 0, 0), (1, 1, 1), (1, 0, 2), (2, 0, 1)])
        pre['major'], pre['minor'], pre['private'] = ver
        for bp in pre['bps']:
            bp['max'] = r.choice([1, 2, 5, 10000])
            if r.random() < 0.5:
                bp['cp'] = gen.gen_cp(r, 'full')
                bp['cp']['host'] = ('probe-%d' % r.randrange(3)).encode().hex()
        if i % 3 == 2 and cases:
            # sibling capture: same configuration as an earlier input except for ONE member (another probe / tick rate / filter ...)
            import copy
            orig = r.randrange(max(0, len(cases) - 6), len(cases))
            sib_of[i] = orig
            pre = copy.deepcopy(cases[orig]['preamble'])
            bp = r.choice(pre['bps'])
            what = r.choice(['host', 'host', 'gen', 'filter', 'tps', 'sflags', 'vlan', 'qrh', 'opcodes', 'promisc', 'samp'])
            if what in ('host', 'gen', 'filter', 'vlan', 'promisc') and 'cp' not in bp:
                bp['cp'] = gen.gen_cp(r, 'full')
                cases[orig]['preamble']['bps'][pre['bps'].index(bp)]['cp'] = copy.deepcopy(bp['cp'])
            if what == 'promisc':
                bp['cp']['promisc'] = not bp['cp'].get('promisc', False)
            if what == 'samp':
                bp['samp'] = b'other sampling'.hex()
            if what in ('host', 'gen', 'filter'):
                bp.setdefault('cp', {})[what] = ('other-%d' % r.randrange(100)).encode().hex()
            elif what == 'tps':
                bp['tps'] = r.choice([x for x in (1, 10, 1000, 10 ** 6, 10 ** 9) if x != bp['tps']])
            elif what == 'sflags':
                bp['sflags'] = (bp.get('sflags', 0) + 1) % 8
            elif what == 'vlan':
                bp.setdefault('cp', {})['vlan'] = [r.randrange(4096)]
            elif what == 'qrh':
                bp['qrh'] ^= 1 << r.randrange(18)
            else:
                bp['opcodes'] = list(bp['opcodes']) + [r.randrange(7, 16)]
        heavy_aec = (i % 5 == 1)
        if heavy_aec:
            for bp in pre['bps']:
                bp['max'] = 10000
                bp['oth'] |= 2
        cases.append(gen.gen_history(r, 'in%04d' % i, preamble=pre, comp='none', kind='name', rotations=False, direct=(i % 4 == 0), addbp=False,
                                     nops=r.choice([3, 10, 30, 80]) if not heavy_aec else 90, weights=dict(setactive=10, aec=60 if heavy_aec else 13)))
    er = ExportRun(PROP, cases, 'c18in', need_lib_read=False)
    inputs = []
    try:
        for pc in er.per_case:
            if not pc:
                continue
            for o in pc['outs']:
                if o.data and o.id in pc['docs']:
                    p = os.path.join(wd, pc['case']['id'] + '.cdns')
                    with open(p, 'wb') as f:
                        f.write(o.data)
                    d = pc['docs'][o.id]
                    inputs.append(dict(path=p, data=o.data, doc=d, version=(d.preamble['major'], d.preamble['minor'], d.preamble['private']), kind='valid', nblocks=len(d.blocks),
                                       case_no=int(pc['case']['id'][2:]), sib_of=sib_of.get(int(pc['case']['id'][2:]))))
                    # the same data as another producer may legitimately encode it: members in another order, indefinite lengths,
                    # block-parameters-index omitted where it is 0 (RFC 8618: ".default 0")
                    rr = gen.seeded(seed, 'C18rw', pc['case']['id'])
                    if rr.random() < 0.5 or int(pc['case']['id'][2:]) % 5 == 1:
                        try:
                            new = reencode(rr, o.data)
                            d2 = cdns_schema.parse(new)
                            def nb(bs):
                                out = []
                                for b in bs:
                                    if b['counts'][3] == 0:
                                        continue
                                    agg = {}
                                    for a in b['aec']:
                                        kk = (a['t'], a.get('code'), a.get('tf'), a['ip'])
                                        agg[kk] = agg.get(kk, 0) + a['cnt']
                                    c = [len(b['qr']), len(agg), len(b['mm'])]
                                    out.append(dict(b, bpi=b['bpi'] or 0, aec=sorted(agg.items(), key=repr), counts=c + [sum(c)]))
                                return out
                            if nb(d2.blocks) == nb(d.blocks) and d2.preamble == d.preamble:
                                p2 = os.path.join(wd, pc['case']['id'] + '_re.cdns')
                                with open(p2, 'wb') as f:
                                    f.write(new)
                                inputs.append(dict(path=p2, data=new, doc=d2, version=inputs[-1]['version'], kind='valid', nblocks=len(d2.blocks), reencoded=True))
                        except (cbor.CborError, cdns_schema.SchemaError):
                            pass
                    # another producer's file with records that carry no (known) member: `{}` and `{<unknown key>: ...}` items are valid
                    # (every member of a Query/Response and of a Malformed message is optional) and count as items
                    if rr.random() < 0.35:
                        try:
                            new3 = with_fieldless_items(rr, o.data)
                            d3 = cdns_schema.parse(new3)
                            if sum(b['counts'][3] for b in d3.blocks) > sum(b['counts'][3] for b in d.blocks):
                                p3 = os.path.join(wd, pc['case']['id'] + '_fl.cdns')
                                with open(p3, 'wb') as f:
                                    f.write(new3)
                                inputs.append(dict(path=p3, data=new3, doc=d3, version=inputs[-1]['version'], kind='valid', nblocks=len(d3.blocks), reencoded=True, fieldless=True))
                        except (cbor.CborError, cdns_schema.SchemaError):
                            pass
    finally:
        er.close()
    return inputs, er.violations


def with_fieldless_items(r, data):
    doc = cdns_schema.parse(data)
    for n in cbor.walk(doc.root):
        if n.major == cbor.MAP and n.ann == 'Block':
            have = {k.value for k, v in n.value}
            for k, v in n.value:
                if k.value in (3, 5) and v.major == cbor.ARRAY and r.random() < 0.8:
                    for _ in range(r.choice([1, 1, 2])):
                        item = cbor.Node(cbor.MAP, []) if r.random() < 0.6 else cbor.Node(cbor.MAP, [(cbor.Node(cbor.UINT, r.choice([40, 99, 1000])), cbor.Node(cbor.UINT, 7))])
                        v.value.insert(r.randrange(len(v.value) + 1), item)
                    v.width = None
            for key in (3, 5):
                if key not in have and r.random() < 0.3:
                    n.value.append((cbor.Node(cbor.UINT, key), cbor.Node(cbor.ARRAY, [cbor.Node(cbor.MAP, [])])))
                    n.width = None
    return cbor.encode(doc.root)


def reencode(r, data):
    from vlib import rewrite
    doc = cdns_schema.parse(data)
    for n in cbor.walk(doc.root):
        if n.major == cbor.MAP and n.ann == 'BlockPreamble' and r.random() < 0.7:
            n.value = [(k, v) for k, v in n.value if not (k.value == 1 and v.value == 0)]
        if n.major == cbor.MAP and n.ann == 'Block' and r.random() < 0.5:
            # block tables that hold the same value twice (valid; a producer that does not de-duplicate): two existing
            # addresses are appended once more and one record is re-pointed at the last copy
            members = {k.value: v for k, v in n.value}
            tabs = members.get(2)
            qrs = members.get(3)
            if tabs is not None and qrs is not None and tabs.major == cbor.MAP:
                ipt = [v for k, v in tabs.value if k.value == 0]
                cands = [(q, vv) for q in qrs.value if q.major == cbor.MAP for kk, vv in q.value if kk.value == 1 and vv.major == cbor.UINT]
                if ipt and ipt[0].major == cbor.ARRAY and ipt[0].value and cands:
                    arr = ipt[0]
                    q, ref = r.choice(cands)
                    if ref.value < len(arr.value):
                        arr.value.append(cbor.Node(cbor.BSTR, arr.value[0].value))
                        arr.value.append(cbor.Node(cbor.BSTR, arr.value[ref.value].value))
                        arr.width = None
                        ref.value = len(arr.value) - 1
                        ref.width = None
        if n.major == cbor.MAP and n.ann == 'Block':
            # an address event reported as two items with the same key and different counts (valid; a producer that does
            # not aggregate writes it like this)
            for k, v in n.value:
                if k.value == 4 and v.major == cbor.ARRAY and r.random() < 0.6:
                    extra = []
                    for item in v.value:
                        cnt = [vv for kk, vv in item.value if kk.value == 4]
                        if cnt and cnt[0].value >= 3 and r.random() < 0.7:
                            take = r.randrange(1, (cnt[0].value - 1) // 2 + 1)
                            if take != cnt[0].value - take:
                                cnt[0].value -= take
                                cnt[0].width = None
                                extra.append(cbor.Node(cbor.MAP, [(cbor.Node(cbor.UINT, kk.value), cbor.Node(vv.major, vv.value if kk.value != 4 else take)) for kk, vv in item.value]))
                    v.value.extend(extra)
    if r.random() < 0.4 and doc.blocks_node is not None:
        # a block without any item (valid: only the block preamble is mandatory); merge drops it, itemcount reports 0 0 0 for it
        empty = cbor.Node(cbor.MAP, [(cbor.Node(cbor.UINT, 0), cbor.Node(cbor.MAP, []))])
        doc.blocks_node.value.insert(r.randrange(len(doc.blocks_node.value) + 1), empty)
        doc.blocks_node.width = None
    return rewrite.rewrite(r, cbor.encode(doc.root), ['permute_maps', 'indef_container'], p=0.6)[0]


def header_end(doc):
    """offset at which the reader has consumed the header: start of the first block (or end of the blocks array head)"""
    b = doc.blocks_node
    if doc.block_spans:
        return doc.block_spans[0][0]
    return b.end


def make_tuples(tier, seed, inputs, wd):
    n = 500 if tier == 'quick' else 3000
    tuples = []
    special_i = 0
    for i in range(n):
        r = gen.seeded(seed, 'C18t', i)
        k = r.choice([1, 2, 2, 3, 4, 6])
        members = []
        sibs = [x for x in inputs if x.get('sib_of') is not None]
        if sibs and i % 3 == 0:
            # a capture and its sibling (same configuration but for one member) merged together
            sb = r.choice(sibs)
            og = [x for x in inputs if x.get('case_no') == sb['sib_of'] and not x.get('reencoded')]
            if og and og[0]['version'] == sb['version']:
                members = [og[0], sb] if r.random() < 0.5 else [sb, og[0]]
        if i % 8 == 5:
            # versions that differ only in "private version absent" vs "private version 0" (both orders)
            va = [x for x in inputs if x['version'] == (1, 0, None)]
            vb = [x for x in inputs if x['version'] == (1, 0, 0)]
            if va and vb:
                members = [r.choice(va), r.choice(vb)]
                if r.random() < 0.5:
                    members.reverse()
        for j in range(k - len(members)):
            x = r.random()
            if x < 0.62:
                if members and r.random() < 0.5 and members[-1]['kind'] == 'valid':
                    k0 = inputs.index(members[-1]) if members[-1] in inputs else 0
                    members.append(inputs[max(0, min(len(inputs) - 1, k0 + r.randrange(-4, 5)))])
                else:
                    members.append(r.choice(inputs))
            elif x < 0.70 and members:
                members.append(members[r.randrange(len(members))])          # the same file listed twice
            elif x < 0.78:
                p = os.path.join(wd, 'empty_%d' % special_i); special_i += 1
                open(p, 'wb').close()
                members.append(dict(path=p, kind='empty', nblocks=0))
            elif x < 0.85:
                p = os.path.join(wd, 'garbage_%d' % special_i); special_i += 1
                with open(p, 'wb') as f:
                    f.write(gen.rbytes(r, r.choice([1, 10, 200])) if r.random() < 0.7 else b'\x83\x65C-DNX\xa0\x9f\xff')
                members.append(dict(path=p, kind='garbage', nblocks=0))
            elif x < 0.90:
                members.append(dict(path=os.path.join(wd, 'does_not_exist_%d' % i), kind='missing', nblocks=0))
            else:
                src = r.choice(inputs)
                cut = r.randrange(1, len(src['data']))
                if r.random() < 0.5 and src['doc'].block_spans:
                    s, e = r.choice(src['doc'].block_spans)
                    cut = r.randrange(s + 1, e) if e > s + 1 else cut
                p = os.path.join(wd, 'trunc_%d' % special_i); special_i += 1
                with open(p, 'wb') as f:
                    f.write(src['data'][:cut])
                readable = cut >= header_end(src['doc'])
                nb = sum(1 for (s, e) in src['doc'].block_spans if e <= cut)
                members.append(dict(path=p, kind='truncated', src=src, cut=cut, readable=readable, nblocks=nb if readable else 0,
                                    version=src['version'], doc=src['doc']))
        tuples.append(members)
    return tuples


def expected_blocks(members):
    """list of (block interpretation, block-parameter value) the merged file must contain, in order"""
    first = None
    out = []
    for m in members:
        if m['kind'] in ('empty', 'garbage', 'missing'):
            continue
        if m['kind'] == 'truncated' and not m['readable']:
            continue
        if first is None:
            first = m['version']
        elif m['version'] != first:
            continue
        d = m['doc']
        nb = m['nblocks']
        for b in d.blocks[:nb]:
            if b['counts'][3] == 0:
                continue
            out.append((b, d.preamble['bps'][b['bpi'] or 0]))
    return out, first


def canon(b):
    # (the block's earliest-time is neither a record nor a statistic: a merge may normalise it, record times are absolute here)
    return {'qr': b['qr'], 'mm': b['mm'], 'aec': sorted(b['aec'], key=lambda a: json.dumps(a, sort_keys=True)), 'stats': b['stats']}


ITEMCOUNT_OPTS = [[], ['-b'], ['-p'], ['-b', '-p'], ['-p', '-b']]


def parse_itemcount(out, opts):
    per_block = '-b' in opts
    pretty = '-p' in opts
    nums = []
    if pretty:
        groups = []
        for chunk in out.strip().split('\n\n') if per_block else [out.strip()]:
            vals = {}
            for line in chunk.splitlines():
                m = re.match(r'^(Block|Query/Response|Address Event Counts|Malformed Messages): (\d+)$', line.strip())
                if m:
                    vals[m.group(1)] = int(m.group(2))
            groups.append([vals.get('Query/Response'), vals.get('Address Event Counts'), vals.get('Malformed Messages')])
        return groups
    chunks = out.strip().split('\n\n') if per_block else [out.strip()]
    return [[int(x) for x in c.split()] for c in chunks if c.strip()]


def run(tier, seed):
    vs = []
    wd = runner.workdir('c18')
    try:
        inputs, v0 = make_inputs(tier, seed, wd)
        vs += v0
        if len(inputs) < 5:
            return dict(violations=vs, coverage=dict(evaluations=0, distinct_nontrivial=0, rule='', samples=[]), inconclusive='too few valid inputs')
        tuples = make_tuples(tier, seed, inputs, wd)
        _, libd = build.ensure('asan')
        merge = os.path.join(libd, 'cdns-merge')
        itemcount = os.path.join(libd, 'cdns-itemcount')

        def do_merge(i):
            outp = os.path.join(wd, 'merged_%05d.cdns' % i)
            rc, out, err, to = runner.run_tool(merge, ['-o', outp] + [m['path'] for m in tuples[i]], timeout=300)
            return i, outp, rc, err, to
        kinds = {}
        merged_blocks = 0
        mismatched_versions = 0
        with cf.ThreadPoolExecutor(max_workers=runner.NCPU) as ex:
            results = list(ex.map(do_merge, range(len(tuples))))
        merged_files = []
        for i, outp, rc, err, to in results:
            members = tuples[i]
            desc = [m['kind'] + (':v%s.%s.%s' % m['version'] if 'version' in m else '') for m in members]
            for m in members:
                kinds[m['kind']] = kinds.get(m['kind'], 0) + 1
            payload = {'inputs': desc, 'input_hex': [open(m['path'], 'rb').read()[:1500].hex() if os.path.exists(m['path']) else None for m in members][:4]}
            if to:
                vs.append(Violation(PROP, '%s:merge:hang' % PROP, 'cdns-merge did not terminate', payload))
                continue
            if rc != 0:
                tr = runner.triage(err, rc) or ('exit-%s' % rc, 'unknown-frame', err[-1500:])
                vs.append(Violation(PROP, '%s:merge:%s:%s' % (PROP, tr[0], tr[1]), 'cdns-merge failed: %s in %s' % (tr[0], tr[1]), dict(payload, report=tr[2])))
                continue
            exp, first = expected_blocks(members)
            if len({m['version'] for m in members if 'version' in m}) > 1:
                mismatched_versions += 1
            try:
                data = open(outp + '', 'rb').read()
            except OSError:
                vs.append(Violation(PROP, '%s:merge:no-output' % PROP, 'cdns-merge produced no output file', payload))
                continue
            if not exp:
                if len(data) != 0:
                    vs.append(Violation(PROP, '%s:merge:output-despite-nothing-to-merge' % PROP, 'nothing mergeable in %s, yet the output has %d bytes' % (desc, len(data)), payload))
                continue
            try:
                doc = cdns_schema.parse(data)
            except (cbor.CborError, cdns_schema.SchemaError) as x:
                vs.append(Violation(PROP, '%s:merge:invalid-output:%s' % (PROP, getattr(x, 'kind', 'cbor')), 'merged file is not a valid C-DNS file: %s (inputs %s)' % (x, desc), payload))
                continue
            merged_files.append((outp, doc))
            got = [(b, doc.preamble['bps'][b['bpi'] or 0]) for b in doc.blocks]
            merged_blocks += len(got)
            if (doc.preamble['major'], doc.preamble['minor'], doc.preamble['private']) != first:
                vs.append(Violation(PROP, '%s:merge:version' % PROP, 'merged file states version %s, first readable input has %s' % ((doc.preamble['major'], doc.preamble['minor'], doc.preamble['private']), first), payload))
            if len(got) != len(exp):
                why = 'extra-blocks' if len(got) > len(exp) else 'missing-blocks'
                rej = any(m.get('version') not in (None, first) for m in members)
                vs.append(Violation(PROP, '%s:merge:%s:%s' % (PROP, why, 'with-rejected-input' if rej else ('with-truncated-input' if any(m['kind'] == 'truncated' for m in members) else 'plain')),
                                    'merged file has %d blocks, the readable version-compatible inputs hold %d (inputs %s)' % (len(got), len(exp), desc), payload))
                continue
            for bi, ((gb, gbp), (eb, ebp)) in enumerate(zip(got, exp)):
                if canon(gb) != canon(eb):
                    part = [k for k in ('qr', 'mm', 'aec', 'stats') if canon(gb)[k] != canon(eb)[k]]
                    vs.append(Violation(PROP, '%s:merge:block-content:%s' % (PROP, '+'.join(part)), 'block %d of the merged file differs from its source block in %s (inputs %s)' % (bi, part, desc), payload))
                    break
                if gbp != ebp:
                    diff = sorted(k for k in set(gbp) | set(ebp) if gbp.get(k) != ebp.get(k))
                    vs.append(Violation(PROP, '%s:merge:block-parameters:%s' % (PROP, '+'.join(diff)[:40]), 'block %d refers to block parameters that differ from those of its source file in %s (inputs %s)' % (bi, diff, desc), payload))
                    break
        # cdns-itemcount on valid inputs and merged outputs, all option combinations
        targets = [(x['path'], x['doc']) for x in inputs] + merged_files[:100 if tier == 'quick' else 1000]

        def do_count(j):
            path, doc = targets[j]
            opts = ITEMCOUNT_OPTS[j % len(ITEMCOUNT_OPTS)]
            rc, out, err, to = runner.run_tool(itemcount, opts + [path], timeout=120)
            return j, opts, rc, out, err, to
        counted = 0
        with cf.ThreadPoolExecutor(max_workers=runner.NCPU) as ex:
            for j, opts, rc, out, err, to in ex.map(do_count, range(len(targets))):
                path, doc = targets[j]
                per = [b['counts'][:3] for b in doc.blocks]
                tot = [sum(p[k] for p in per) for k in range(3)]
                payload = {'options': opts, 'file_hex': open(path, 'rb').read()[:2000].hex(), 'stdout': out[:500]}
                if to or rc != 0:
                    tr = runner.triage(err, rc) or ('exit-%s' % rc, 'unknown-frame', err[-1500:])
                    vs.append(Violation(PROP, '%s:itemcount:%s:%s' % (PROP, tr[0], tr[1]), 'cdns-itemcount failed on a valid file', dict(payload, report=tr[2])))
                    continue
                counted += 1
                try:
                    got = parse_itemcount(out, opts)
                except ValueError:
                    got = None
                want = per if '-b' in opts else [tot]
                if got != want:
                    vs.append(Violation(PROP, '%s:itemcount:wrong-counts:%s' % (PROP, ''.join(sorted(o.strip('-') for o in opts)) or 'plain'), 'cdns-itemcount %s printed %s, an independent parse counts %s' % (' '.join(opts), str(got)[:120], str(want)[:120]), payload))
        obs = dict(valid_inputs=len(inputs), tuples=len(tuples), member_kinds=kinds, merged_blocks_compared=merged_blocks, tuples_with_version_mismatch=mismatched_versions, itemcount_runs=counted)
        cov = dict(evaluations=len(tuples) + counted, distinct_nontrivial=len(tuples),
                   rule='tuples of 1-6 inputs (exporter-written files with different versions / private version present-absent / parameter sets / hints, plus empty, garbage, missing, truncated-mid-block members and duplicates) through the real '
                        'cdns-merge (ASan+UBSan build); oracle: independent interpretation of inputs and output - merged blocks == non-empty blocks of the readable, version-compatible inputs in order, same records / statistics / '
                        'block-parameter values; cdns-itemcount (all option combinations) vs independently parsed counts; tuples distinct by seed',
                   samples=[[m['kind'] for m in tuples[0]], [m['kind'] for m in tuples[1]]], observed=obs)
        return dict(violations=vs, coverage=cov)
    finally:
        runner.cleanup(wd)
