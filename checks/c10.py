"""C10 - reported byte counts equal the bytes actually produced (DESIGN 4/C10)."""
import os

from vlib import build, cbor, gen, pipeline, runner
from vlib.findings import Violation
from .common import ExportRun, sample_of
from . import c06

PROP, LEVEL = 'C10', 'exploration'


def make_cases(tier, seed):
    n = 900 if tier == 'quick' else 6000
    cases = []
    for i in range(n):
        r = gen.seeded(seed, 'C10', i)
        kw = {}
        if i % 4 == 0:
            kw = dict(big=True, nops=r.choice([30, 150]))
        elif i % 4 == 1:
            kw = dict(weights=dict(rotate=14, dblock=8))
        elif i % 4 == 2:
            kw = dict(nops=r.choice([0, 1, 2, 3, 5]))   # destruction with/without buffered data, tiny histories
        if i % 3 == 1:
            # preambles with every optional member (prefix lengths, flags, method strings, collection parameters, odd lists)
            pre = gen.gen_preamble(r, rich=True, nbps=r.choice([1, 2, 3]))
            pre['major'], pre['minor'] = 1, 0
            for bp in pre['bps']:
                if bp['tps'] == 0 or bp['tps'] > 10 ** 9:
                    bp['tps'] = r.choice([1, 1000, 10 ** 6])
                if bp['max'] > 10000:
                    bp['max'] = r.choice(gen.MAX_CHOICES)
            kw['preamble'] = pre
        cases.append(gen.gen_history(r, 'c%05d' % i, **kw))
    return cases


def run(tier, seed):
    cases = make_cases(tier, seed)
    er = ExportRun(PROP, cases, 'c10', need_lib_read=False)
    try:
        vs = er.violations
        checked = 0
        destroyed_with_buffered = 0
        for pc in er.per_case:
            if pc is None:
                continue
            vs += pipeline.judge_bytecounts(PROP, pc['case'], pc['res'], pc['outs'])
            checked += len(pc['outs'])
            d = [e for e in pc['res']['log'] if e['op'] == 'destroy']
            if d and d[0].get('items_before', 0) > 0:
                destroyed_with_buffered += 1
        # encoder level: per-call return == bytes appended (random call sequences incl. strings straddling the buffer)
        enc_vs, enc_obs = c06.run_sequences(PROP, seed, 60 if tier == 'quick' else 800, 'c10enc')
        vs += enc_vs
        obs = dict(er.obs)
        obs.update(outputs_summed=checked, destroyed_with_buffered_items=destroyed_with_buffered, encoder_calls_checked=enc_obs['calls'],
                   encoder_strings_straddling_buffer=enc_obs['straddle'])
        nt = er.nontrivial(lambda pc: any(o.data for o in pc['outs']))
        cov = dict(evaluations=len(cases) + enc_obs['sequences'], distinct_nontrivial=nt,
                   rule='exporter histories as in C02/C13 (3 compressions, name/fd, rotations, direct blocks, destruction with buffered data): per output, sum of returned byte counts == '
                        'independently measured uncompressed size (+1 closing break at destruction); plus encoder call sequences: each return == length of the reference encoding; '
                        'non-trivial = some output received data',
                   samples=[sample_of(c) for c in cases[:2]], observed=obs)
        return dict(violations=vs, coverage=cov)
    finally:
        er.close()
