"""C16 - output failures are reported, never swallowed, and rotation recovers from them (DESIGN 4/C16)."""
import concurrent.futures as cf
import copy
import os
import shutil

from vlib import build, cbor, cdns_schema, model, pipeline, runner
from vlib.findings import Violation
from . import sysutil

PROP, LEVEL = 'C16', 'fault_enumeration'
BUF_OPS = ('qr', 'aec', 'mm', 'wb', 'dblock')


def out_id(path, cid):
    b = os.path.basename(path)
    b = b[len(cid) + 1:]
    for suf in ('.part', '.gz', '.xz'):
        if b.endswith(suf):
            b = b[:-len(suf)]
    for suf in ('.gz', '.xz'):
        if b.endswith(suf):
            b = b[:-len(suf)]
    return b


def retained_block(case, i_exc):
    """model: content of the internal block when the flush inside op i_exc failed"""
    m = model.ExporterModel(case['preamble'])
    for i, op in enumerate(case['ops'][:i_exc]):
        m.apply(op, i)
    op = case['ops'][i_exc]
    if op['op'] == 'qr':
        rec = model.filter_qr(op['r'], m.block.bp)
        if rec:
            m.block.qr.append(rec)
    return m.block.as_expected()


def _bounded_map(ex, fn, items, window):
    """ordered map with at most `window` results in flight or waiting to be consumed"""
    import collections
    q = collections.deque()
    it = iter(items)
    for x in it:
        q.append(ex.submit(fn, x))
        if len(q) >= window:
            yield q.popleft().result()
    while q:
        yield q.popleft().result()


def run(tier, seed):
    vs = []
    drvd, _ = build.ensure('asan')
    exe = os.path.join(drvd, 'vdrv')
    base = runner.workdir('c16')
    scen = []
    for name, case, pre_files in sysutil.scenario_cases(seed, tier):
        if 'onto' in name or 'unusable' in name:
            continue
        for kind in ('name', 'fd'):
            c = copy.deepcopy(case)
            c['open']['kind'] = kind
            c['stop_on_exc'] = True
            c['recover'] = [{'op': 'counters'}, {'op': 'rotate', 'id': 'rec', 'export': False, 'retry': True}, {'op': 'wb'}, {'op': 'counters'}]
            scen.append((name + '/' + kind, c))
    # scenarios padded so that the closing break is written with the staging buffer exactly full (the break itself must flush)
    from . import c13
    steered, hits = c13.steered_cases(tier, seed)
    for c in steered:
        if any(o['op'] == 'rotate' for o in c['ops']):
            c = copy.deepcopy(c)
            c['id'] = 'z' + c['id'][1:]
            c['stop_on_exc'] = True
            c['recover'] = [{'op': 'counters'}, {'op': 'rotate', 'id': 'rec', 'export': False, 'retry': True}, {'op': 'wb'}, {'op': 'counters'}]
            scen.append(('steered-full-buffer/%s/%s/%s' % (c['open']['comp'], c['id'], c['open']['kind']), c))
    injected_runs = exc_seen = recovered = 0
    outcome = {}
    try:
        jobs = []
        per_scen = {}
        dry_files = {}
        for si, (name, case) in enumerate(scen):
            d = sysutil.prepare_dir(base, 'dry%d' % si, case, {})
            rc, res, sl, err = sysutil.sysrun(exe, case, d, {'mode': 'count'})
            if rc != 0 or res is None or any('exc' in e for e in res['log']):
                tr = runner.triage(err, rc) or ('exit-%s' % rc, 'unknown-frame', err[-1500:])
                vs.append(Violation(PROP, '%s:dry-run:%s' % (PROP, tr[0]), 'scenario %s failed / threw without any fault injected' % name, {'case': case, 'report': tr[2]}))
                continue
            dry_files[si] = sysutil.final_files(d, case)
            ws = [e for e in sl if e['call'] in ('write', 'writev')]
            for e in ws:
                if out_id(e['path'], case['id']) in ('rec', 'recr'):
                    continue                 # never fault the healthy recovery destination
                if e['req'] == 0:
                    continue                 # a zero-length write cannot lose bytes
                k = e['w']
                plans = [dict(mode='fault', k=k, err='ENOSPC', persist=False), dict(mode='fault', k=k, err='short', short=max(1, e['req'] // 2), persist=False),
                         dict(mode='fault', k=k, err='EIO' if k % 2 else 'ENOSPC', persist=True)]
                if tier != 'quick':
                    plans += [dict(mode='fault', k=k, err='EIO', persist=False), dict(mode='fault', k=k, err='short', short=0, persist=False), dict(mode='fault', k=k, err='short', short=max(1, e['req'] - 1), persist=True)]
                for pl in plans:
                    jobs.append((si, pl))
                    per_scen[name] = per_scen.get(name, 0) + 1

        def fault_job(job):
            si, pl = job
            name, case = scen[si]
            d = sysutil.prepare_dir(base, 'f%d_%d_%s_%d_%d' % (si, pl['k'], pl['err'], pl.get('short', 0), pl['persist']), case, {})
            rc, res, sl, err = sysutil.sysrun(exe, case, d, pl)
            files = sysutil.final_files(d, case)
            shutil.rmtree(d, ignore_errors=True)
            return si, pl, rc, res, [e for e in sl if e.get("injected")], err, files
        # results are judged as they arrive and dropped (thorough tiers run tens of thousands of fault runs, each with file contents)
        ex = cf.ThreadPoolExecutor(max_workers=runner.NCPU)
        for si, pl, rc, res, sl, err, files in _bounded_map(ex, fault_job, jobs, 4 * runner.NCPU):
            name, case = scen[si]
            kind, comp = case['open']['kind'], case['open']['comp']
            how = 'persist' if pl['persist'] else 'once'
            payload = {'case': {k: v for k, v in case.items()}, 'fault': pl}
            inj = [e for e in sl if e.get('injected')]
            if rc != 0 or res is None:
                tr = runner.triage(err, rc) or ('exit-%s' % rc, 'unknown-frame', err[-1500:])
                vs.append(Violation(PROP, '%s:died:%s:%s' % (PROP, tr[0], tr[1]), 'scenario %s with write fault %s: process died (%s in %s)' % (name, pl, tr[0], tr[1]), dict(payload, report=tr[2])))
                continue
            if not inj:
                outcome['fault-not-reached'] = outcome.get('fault-not-reached', 0) + 1
                continue
            injected_runs += 1
            log = res['log']
            X = out_id(inj[0]['path'], case['id'])
            # op during which the fault hit
            i_f = next((j for j, e in enumerate(log) if e.get('sysw', -1) >= pl['k']), None)
            if i_f is None:
                i_f = len(log) - 1
            during = log[i_f]['op']
            excs = [j for j, e in enumerate(log) if 'exc' in e]
            if excs:
                exc_seen += 1
            # (A) some call from the fault up to and including the rotation that closes X (returning normally) threw
            closing = next((j for j in range(i_f, len(log)) if log[j]['op'] in ('rotate', 'rotate_retry') and log[j].get('closes') == X and 'exc' not in log[j]), None)
            reported = any('exc' in log[j] for j in range(i_f, (closing if closing is not None else len(log) - 1) + 1))
            lost = True
            if not excs:
                # nothing threw, so the run made the same calls as the fault-free one: the output lost bytes iff its content differs
                fnX = [f for f in files if out_id(f, case['id']) == X]
                lost = not fnX or any(files[f] != dry_files[si].get(f[:-5] if f.endswith('.part') else f) for f in fnX)
                if not lost:
                    outcome['fault-absorbed-no-bytes-lost'] = outcome.get('fault-absorbed-no-bytes-lost', 0) + 1
            if closing is not None and not reported and lost:
                phase = 'block-data' if during in BUF_OPS else 'inside-rotate'
                vs.append(Violation(PROP, '%s:swallowed:%s:%s:%s' % (PROP, kind, comp, phase),
                                    'scenario %s: write %d to output %s %s (%s), yet no API call threw up to and including the rotate_output that closed it' % (name, pl['k'], X, 'failed with ' + pl['err'] if pl['err'] != 'short' else 'was cut short', how),
                                    payload))
                outcome['swallowed'] = outcome.get('swallowed', 0) + 1
            elif closing is None and not excs:
                outcome['lost-at-destruction-only'] = outcome.get('lost-at-destruction-only', 0) + 1     # destruction is outside the guarantee
            # (B) + (C): after an exception, recovery
            if excs:
                first = excs[0]
                origin = log[first]['op']
                rec_rot = [e for e in log if e.get('phase') == 'recover' and e['op'] in ('rotate', 'rotate_retry')]
                rec_ok = any('exc' not in e for e in rec_rot)
                told_before = any('exc' in e for e in log if e.get('phase') == 'main')
                if told_before and rec_rot and 'exc' in rec_rot[0] and rec_ok:
                    vs.append(Violation(PROP, '%s:recovery-rotate-threw-again:%s:%s:%s' % (PROP, kind, comp, how), 'scenario %s: the failure had been reported by %s, yet the following rotate_output to a healthy destination threw (%s) and only its repetition succeeded' % (name, origin, rec_rot[0].get('what')), payload))
                    continue
                wb = [e for e in log if e.get('phase') == 'recover' and e['op'] == 'wb']
                if not rec_ok:
                    vs.append(Violation(PROP, '%s:recovery-rotate-failed:%s:%s:%s' % (PROP, kind, comp, how), 'scenario %s: after the failure, rotate_output to a healthy destination threw (twice): %s' % (name, [e.get('what') for e in rec_rot][:2]), payload))
                    continue
                if not wb or 'exc' in wb[0]:
                    vs.append(Violation(PROP, '%s:recovery-write-failed:%s:%s:%s' % (PROP, kind, comp, how), 'scenario %s: write_block() after the recovery rotation failed: %s' % (name, wb[0].get('what') if wb else None), payload))
                    continue
                last_open = [e['opens'] for e in rec_rot if 'exc' not in e][-1]
                fn = '%s_%s%s' % (case['id'], last_open, sysutil.suffix(comp) if kind == 'name' else '')
                data = files.get(fn)
                # an output opened during recovery and closed again without a block must not have received any data
                stale = False
                for f2, d2 in files.items():
                    if f2 != fn and out_id(f2, case['id']) in ('rec', 'recr') and not f2.endswith('.part'):
                        try:
                            if pipeline.decompress(comp, d2) != b'':
                                stale = True
                        except pipeline.StreamError:
                            stale = True
                if stale:
                    vs.append(Violation(PROP, '%s:stale-data-in-new-output:%s:%s:%s' % (PROP, kind, comp, how), 'scenario %s: the output opened by the (throwing) recovery rotation received data although no block was written to it' % name, payload))
                    continue
                want = None
                if origin in BUF_OPS and log[first].get('phase') == 'main':
                    want = retained_block(case, log[first]['i'])
                    cnt = [e for e in log if e.get('phase') == 'recover' and e['op'] == 'counters']
                    if cnt and (cnt[0]['qr'], cnt[0]['mm']) != (len(want['qr']), len(want['mm'])):
                        vs.append(Violation(PROP, '%s:failed-block-not-retained:%s:%s' % (PROP, kind, comp), 'scenario %s: after the exception from %s the exporter holds %d/%d Q/R and malformed records, the failed block had %d/%d' % (name, origin, cnt[0]['qr'], cnt[0]['mm'], len(want['qr']), len(want['mm'])), payload))
                        continue
                if want is not None and not (want['qr'] or want['mm'] or want['aec']):
                    want = None
                if data is None:
                    if want is not None:
                        vs.append(Violation(PROP, '%s:recovery-output-missing:%s:%s' % (PROP, kind, comp), 'scenario %s: no recovery output although records were retained' % name, payload))
                    continue
                try:
                    plain = pipeline.decompress(comp, data)
                    doc = cdns_schema.parse(plain) if plain else None
                except (pipeline.StreamError, cbor.CborError, cdns_schema.SchemaError) as x:
                    vs.append(Violation(PROP, '%s:recovery-output-invalid:%s:%s:%s' % (PROP, kind, comp, how), 'scenario %s: the file written after recovery is not a complete valid C-DNS file: %s' % (name, x), payload))
                    continue
                if want is not None:
                    got = [model.canon_block(b) for b in doc.blocks] if doc else []
                    if len(got) != 1 or any(got[0][k] != want[k] for k in ('qr', 'mm', 'aec')):
                        vs.append(Violation(PROP, '%s:recovery-output-content:%s:%s' % (PROP, kind, comp), 'scenario %s: the recovery output does not hold exactly the records of the failed block (%d blocks)' % (name, len(got)), payload))
                        continue
                recovered += 1
                outcome['reported+recovered'] = outcome.get('reported+recovered', 0) + 1
    finally:
        try:
            ex.shutdown(wait=True)
        except NameError:
            pass
        runner.cleanup(base)
    obs = dict(scenarios=len(scen), fault_runs=len(jobs), fault_runs_per_scenario=per_scen, runs_with_fault_injected=injected_runs, runs_where_an_api_call_threw=exc_seen, runs_recovered_into_valid_file=recovered, outcomes=outcome)
    cov = dict(evaluations=len(jobs), distinct_nontrivial=injected_runs,
               rule='scenarios ({plain,gzip,xz} x {name,fd} x {single, 3 rotations, destruction +- buffered data}) each followed by the recovery script rotate_output(healthy, false) [retried once] + write_block(); '
                    'for EVERY write/writev k of the scenario (interposed in the driver): ENOSPC / EIO / short count, once or persistently for that destination; non-trivial = the fault was really injected; '
                    'oracle: (A) some API call up to and including the closing rotate_output threw, (B) the failed block is still buffered, (C) recovery rotation succeeds and the recovery output is a complete valid file with exactly those records',
               samples=[{'scenario': scen[0][0], 'fault': jobs[0][1] if jobs else None}], observed=obs, exhaustive=True)
    inc = None if injected_runs >= 0.7 * max(1, len(jobs)) else 'only %d of %d planned faults were injected' % (injected_runs, len(jobs))
    return dict(violations=vs, coverage=cov, inconclusive=inc,
                assumptions=['"throws no later than the rotate_output call that closes that output" is read as: some API call between the fault and that rotation (inclusive) threw',
                             'destruction cannot throw and is outside the guarantee'])
