"""C08 - reading is invariant under equivalent re-encoding and ignores unknown members (DESIGN 4/C08)."""
import json

from vlib import cbor, cdns_schema, gen, pipeline, rewrite, runner
from vlib.findings import Violation
from .common import ExportRun
from . import c07

PROP, LEVEL = 'C08', 'exploration'


def corpus(tier, seed):
    n = 180 if tier == 'quick' else 1500
    cases = []
    for i in range(n):
        r = gen.seeded(seed, 'C08c', i)
        big = (i % 45 == 7) if tier == 'quick' else (i % 25 == 0)      # a few files spanning several decoder windows
        pre = gen.gen_preamble(r, rich=(i % 4 == 1), nbps=r.choice([1, 2, 3])) if i % 4 else gen.gen_preamble(r)
        for bp in pre['bps']:
            if bp['tps'] == 0 or bp['tps'] > 10 ** 9:
                bp['tps'] = 1000
        if i % 8 == 1:
            pre['bps'][0]['opcodes'] = []
            pre['bps'][-1]['rrtypes'] = []
        cases.append(gen.gen_history(r, 'k%04d' % i, comp='none', kind='name', rotations=False, nops=r.choice([5, 20, 40]) if not big else (350 if tier == 'quick' else 1200), big=big,
                                     preamble=pre))
    for c in cases:
        for bp in c['preamble']['bps']:
            if bp['tps'] == 0 or bp['tps'] > 10 ** 9:
                bp['tps'] = 1000
    er = ExportRun(PROP, cases, 'c08c', need_lib_read=False)
    files = []
    try:
        for pc in er.per_case:
            if pc:
                for o in pc['outs']:
                    if o.data and o.id in pc['docs']:
                        files.append(o.data)
    finally:
        er.close()
    return files, er.violations


def canon(d):
    """canonical comparable content of a reader dump"""
    if d is None:
        return None
    out = {'hdr': d.get('hdr'), 'end': d.get('end') if d.get('end') == 'eof' else d.get('end'), 'preamble': d.get('preamble'), 'blocks': []}
    for b in d.get('blocks', []):
        b = dict(b)
        b['aec'] = sorted(b['aec'], key=lambda a: json.dumps(a, sort_keys=True))
        out['blocks'].append(b)
    return out


def where(a, b):
    if a['hdr'] != b['hdr']:
        return 'header:%s' % (b['hdr'].get('exc') if isinstance(b['hdr'], dict) else 'differs')
    if a['preamble'] != b['preamble']:
        return 'preamble'
    if a['end'] != b['end']:
        return 'end:%s' % (b['end'].get('exc') if isinstance(b['end'], dict) else b['end'])
    if len(a['blocks']) != len(b['blocks']):
        return 'block-count'
    for x, y in zip(a['blocks'], b['blocks']):
        for k in ('bpi', 'earliest', 'stats', 'tables', 'qr', 'aec', 'mm'):
            if x.get(k) != y.get(k):
                if k in ('qr', 'mm') and len(x[k]) == len(y[k]):
                    for p, q in zip(x[k], y[k]):
                        if p != q:
                            return '%s:%s' % (k, '+'.join(sorted(f for f in set(p) | set(q) if p.get(f) != q.get(f)))[:40])
                return k
    return 'unknown'


def _rewrite_job(job):
    seed, fi, j, data = job
    r = gen.seeded(seed, 'C08r', fi, j)
    kinds = None if j >= len(rewrite.KINDS) else [rewrite.KINDS[j]]      # one rewrite kind at a time, then compositions
    try:
        new, counts = rewrite.rewrite(r, data, kinds, p=r.choice([0.15, 0.5, 0.9]), value_gen=lambda rr: c07.rand_item(rr, 0, rr.choice([1, 3, 6])))
        # the rewriter checks itself: the independent interpretation must be unchanged
        a, b = cdns_schema.parse(data), cdns_schema.parse(new)
        if a.preamble != b.preamble or a.blocks != b.blocks:
            return fi, j, kinds, None, None
    except (cbor.CborError, cdns_schema.SchemaError):
        return fi, j, kinds, None, None
    return fi, j, kinds, new, counts


def run(tier, seed):
    base, vs = corpus(tier, seed)
    per = 8 if tier == 'quick' else 20
    files = []
    meta = []
    discarded = 0
    poison = 0
    totals = {k: 0 for k in rewrite.KINDS}
    jobs = [(seed, fi, j, data) for fi, data in enumerate(base) for j in range(per)]
    for fi, data in enumerate(base):
        files.append(('o%d' % fi, data))
    import multiprocessing
    with multiprocessing.Pool(runner.NCPU) as pool:
        for fi, j, kinds, new, counts in pool.imap(_rewrite_job, jobs, chunksize=4):
            if new is None:
                discarded += 1
                continue
            if sum(counts.values()) == 0:
                continue
            for k, v in counts.items():
                totals[k] += v
            files.append(('r%d_%d' % (fi, j), new))
            meta.append((fi, j, kinds, counts))
            # interference: the same reader thread is also given damaged inputs (this file cut at a random point, often inside a
            # nested unknown value).  They fail, as they must; what the valid files read like must not depend on it
            rc = gen.seeded(seed, 'C08cut', fi, j)
            if len(new) > 40 and rc.random() < 0.7:
                files.append(('t%d_%d' % (fi, j), new[:rc.randrange(20, len(new))]))
                poison += 1
    wd = runner.workdir('c08')
    try:
        dumps, crashes = pipeline.read_back(files, 'c08', wd, tables=True)
        for c in crashes:
            vs.append(Violation(PROP, '%s:%s' % (PROP, c.key_tail()), 'reader died on a re-encoded file: %s in %s' % (c.cls, c.func), {'report': c.excerpt}))
        compared = 0
        fbytes = dict(files)
        for fi, j, kinds, counts in meta:
            a, b = canon(dumps.get('o%d' % fi)), canon(dumps.get('r%d_%d' % (fi, j)))
            if a is None or b is None:
                continue
            if a['hdr'] != 'ok' or a['end'] != 'eof':
                vs.append(Violation(PROP, '%s:original-unreadable' % PROP, 'the reader could not read the exporter output itself: %s / %s' % (a['hdr'], a['end']), {'file_hex': fbytes['o%d' % fi][:2000].hex()}))
                continue
            compared += 1
            if a != b:
                applied = '+'.join(sorted(k for k, v in counts.items() if v))
                vs.append(Violation(PROP, '%s:differs:%s:%s' % (PROP, applied if kinds else 'composition', where(a, b)),
                                    'file re-encoded with {%s} reads differently (%s)' % (applied, where(a, b)),
                                    {'original_hex': fbytes['o%d' % fi][:4000].hex(), 'rewritten_hex': fbytes['r%d_%d' % (fi, j)][:6000].hex(), 'rewrites': counts}))
    finally:
        runner.cleanup(wd)
    obs = dict(valid_files=len(base), rewritten_files_compared=compared, damaged_inputs_interleaved_in_the_same_reader_threads=poison, rewrites_applied_per_kind=totals, discarded_by_rewriter_self_check=discarded,
               file_sizes_max=max(len(d) for d in base) if base else 0)
    cov = dict(evaluations=len(meta), distinct_nontrivial=len(meta),
               rule='valid exporter outputs re-encoded by random compositions of {definite<->indefinite containers, chunked / indefinite strings, non-minimal heads, map-member permutation, unknown integer keys with '
                    'arbitrary well-formed values (tags, floats, nested indefinite containers)}; each kind alone first, then compositions; every rewritten file is distinct (independent seeds); '
                    'oracle: CdnsReader dump (preamble, tables, generic records) of the rewrite == dump of the original; rewriter self-checked with the independent interpreter',
               samples=[{'rewrites': m[3], 'single_kind': m[2]} for m in meta[:3]], observed=obs)
    inc = 'rewriter discarded more than 5%% of its outputs (%d)' % discarded if discarded > 0.05 * max(1, len(meta)) else None
    return dict(violations=vs, coverage=cov, inconclusive=inc)
