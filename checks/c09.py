"""C09 - file preamble and block parameters survive write -> read unchanged (DESIGN 4/C09)."""
import json

from vlib import gen, pipeline
from vlib.findings import Violation
from .common import ExportRun, case_hash

PROP, LEVEL = 'C09', 'exploration'


def make_cases(tier, seed):
    n = 1000 if tier == 'quick' else 20000
    cases = []
    for i in range(n):
        r = gen.seeded(seed, 'C09', i)
        pre = gen.gen_preamble(r, nbps=r.choice([1, 1, 2, 3, 5, 8]), rich=True)
        if i % 10 == 0:
            pre['private'] = None
        if i % 10 == 1:
            for bp in pre['bps']:
                bp['cp'] = {}
        if i % 10 == 2:
            for bp in pre['bps']:
                bp.pop('cp', None)
        if i % 10 == 3:
            for bp in pre['bps']:
                bp['cp'] = gen.gen_cp(r, 'full')
        if i % 10 == 4 and len(pre['bps']) > 1:
            # alternate sets with / without collection parameters and with empty / default lists
            for k, bp in enumerate(pre['bps']):
                if k % 2:
                    bp.pop('cp', None)
                    bp['opcodes'], bp['rrtypes'] = [], []
                else:
                    bp['cp'] = gen.gen_cp(r, 'full')
        c = {'id': 'p%05d' % i, 'preamble': pre, 'open': {'id': 'o0', 'kind': r.choice(['name', 'fd']), 'comp': r.choice(['none', 'none', 'gzip', 'xz'])},
             'ops': [{'op': 'qr', 'r': {'asn': '4153'}}, {'op': 'wb'}]}
        if i % 5 == 3:
            # parameter sets added through the exporter before the first block: a free-standing object, a clone of the active set
            # (the argument is an element of the exporter's own vector), one object used as a template twice
            adds = []
            for _ in range(r.choice([1, 2, 4])):
                bp = gen.gen_bp(r, rich=True)
                bp['max'] = min(bp['max'], 2 ** 62)
                op = {'op': 'addbp', 'bp': bp}
                hw = r.random()
                if hw < 0.35:
                    op['how'] = 'clone_active'
                elif hw < 0.65:
                    op['how'] = 'twice'
                adds.append(op)
            c['ops'] = adds + c['ops']
        cases.append(c)
    # wide (>= 2^32) members of later parameter sets at every position of the 2048-byte encoder buffer: a text member of
    # the first set grows by one byte per case (2100 consecutive lengths cover every alignment of every following member)
    span = 2100 if tier == 'quick' else 4200
    for L in range(span):
        r = gen.seeded(seed, 'C09a', L % 7)
        wide = lambda: r.choice([2 ** 32, 2 ** 32 + 1, 2 ** 40, 2 ** 63, 2 ** 64 - 1])
        bp0 = gen.gen_bp(r, tps=1000, maxi=5)
        bp0.pop('cp', None)
        bp0['samp'] = ('73' * L)
        sets = [bp0]
        for k in range(2):
            bp = gen.gen_bp(r, tps=wide(), maxi=wide())
            bp['cp'] = {'qto': wide(), 'sto': wide(), 'snap': wide(), 'filter': ('66' * (k * 300))}
            sets.append(bp)
        pre = {'major': 1, 'minor': 0, 'private': None if L % 2 else 3, 'bps': sets}
        cases.append({'id': 'a%05d' % L, 'preamble': pre, 'open': {'id': 'o0', 'kind': 'fd', 'comp': 'none'},
                      'ops': [{'op': 'qr', 'r': {'asn': '4153'}}, {'op': 'wb'}]})
    # the same members at every position relative to the decoder's 65535-byte window: a text member of the first set is long enough to
    # push the following sets across stream offset 65535 (thorough: also 2 x 65535), one byte further per case
    W = 65535
    for kk, base in enumerate([W] if tier == 'quick' else [W, 2 * W]):
        for d in range(720):
            L = base - 700 + d
            r = gen.seeded(seed, 'C09w', d % 5)
            wide = lambda: r.choice([2 ** 32 + 1, 2 ** 40 + 7, 2 ** 63 + 11, 2 ** 64 - 2, 0x0102030405060708, 0x01020304, 0x0102])
            bp0 = gen.gen_bp(r, tps=1000, maxi=5)
            bp0.pop('cp', None)
            bp0['samp'] = ('73' * L)
            sets = [bp0]
            for k in range(2):
                bp = gen.gen_bp(r, tps=wide(), maxi=wide(), rich=True)
                bp['tps'], bp['max'] = wide(), wide()
                bp['cp'] = {'qto': wide(), 'sto': wide(), 'snap': wide(), 'vlan': [0x0102, 0xfffe], 'filter': ('66' * (k * 90)), 'ifs': ['657468' + '30' * 30]}
                sets.append(bp)
            pre = {'major': 1, 'minor': 0, 'private': None if d % 2 else 3, 'bps': sets}
            cases.append({'id': 'w%d%05d' % (kk, d), 'preamble': pre, 'open': {'id': 'o0', 'kind': 'fd', 'comp': 'none'},
                          'ops': [{'op': 'qr', 'r': {'asn': '4153'}}, {'op': 'wb'}]})
    return cases


def diff_paths(a, b, path=''):
    if type(a) != type(b) and not (isinstance(a, (int, bool)) and isinstance(b, (int, bool)) and type(a) == type(b)):
        return [path or '/']
    if isinstance(a, dict):
        out = []
        for k in sorted(set(a) | set(b)):
            if k not in a or k not in b:
                out.append('%s/%s(%s)' % (path, k, 'phantom' if k not in a else 'lost'))
            else:
                out += diff_paths(a[k], b[k], path + '/' + k)
        return out
    if isinstance(a, list):
        if len(a) != len(b):
            return [path + '[len]']
        out = []
        for i, (x, y) in enumerate(zip(a, b)):
            out += diff_paths(x, y, path + '[]')
        return out
    return [] if a == b else [path]


def run(tier, seed):
    cases = make_cases(tier, seed)
    er = ExportRun(PROP, cases, 'c09', need_lib_read=True)
    try:
        vs = er.violations
        members = {}
        compared = 0
        for pc in er.per_case:
            if pc is None:
                continue
            c = pc['case']
            want = c['preamble']
            hdr = pc['exp_out'][0].get('bps_header') if pc['exp_out'] else None
            if hdr is not None and len(hdr) != len(want['bps']):
                want = dict(want, bps=hdr)          # sets added through add_block_parameters() before the first block
            for bp in want['bps']:
                for k in bp:
                    members[k] = members.get(k, 0) + 1
                if 'cp' in bp:
                    members['cp:empty' if not bp['cp'] else 'cp:nonempty'] = members.get('cp:empty' if not bp['cp'] else 'cp:nonempty', 0) + 1
            members['private:absent' if want['private'] is None else 'private:present'] = members.get('private:absent' if want['private'] is None else 'private:present', 0) + 1
            o = pc['outs'][0] if pc['outs'] else None
            if o is None or o.id not in pc['docs']:
                vs.append(Violation(PROP, '%s:no-valid-output' % PROP, 'the output holding the preamble could not be parsed (see C02)', {'case': c}))
                continue
            ind = pc['docs'][o.id].preamble
            d = diff_paths(want, ind)
            if d:
                vs.append(Violation(PROP, '%s:written-bytes:%s' % (PROP, ','.join(sorted(set(x.split('[')[0].split('(')[0] + ('(' + x.split('(')[1] if '(' in x else '') for x in d)))[:80]),
                                    'the bytes on disk do not state the preamble that was given: differs at %s' % d[:6], {'case': c}))
            dump = er.dumps.get(c['id'] + '/' + o.id)
            if dump is None or dump.get('hdr') != 'ok':
                vs.append(Violation(PROP, '%s:reader-failed' % PROP, 'CdnsReader could not read the file header: %s' % (dump or {}).get('hdr'), {'case': c}))
                continue
            compared += 1
            d = diff_paths(want, dump['preamble'])
            if d:
                vs.append(Violation(PROP, '%s:read-back:%s' % (PROP, ','.join(sorted(set(x.replace('[]', '') for x in d)))[:80]),
                                    'preamble read back differs from the one written at %s (written %s, read %s)' % (d[:6], json.dumps(want)[:200], json.dumps(dump['preamble'])[:200]), {'case': c}))
        obs = dict(preambles_compared_member_for_member=compared, members_written=members, comp=er.obs['comp'], kind=er.obs['kind'])
        cov = dict(evaluations=len(cases), distinct_nontrivial=len({case_hash(c['preamble']) for c in cases}),
                   rule='random FilePreamble values (versions 0..255, private version present/absent, 1..8 parameter sets, every optional-member subset, full-width integers, opcode/RR-type lists of length 0..40 '
                        'with unassigned codes, arbitrary UTF-8, collection parameters absent/empty/partial/full) written by the exporter and read by CdnsReader; distinct = distinct preamble values; '
                        'oracle: reader dump == value written == independent interpretation of the bytes',
                   samples=[cases[0]['preamble'], cases[4]['preamble']], observed=obs)
        return dict(violations=vs, coverage=cov,
                    assumptions=['empty interface / server-address / VLAN lists are indistinguishable from absent ones in the API (plain vectors) and are generated non-empty'])
    finally:
        er.close()
