"""Helpers for the system-call interposition checks (C15 crash points, C16 write faults)."""
import json
import os
import shutil
import subprocess

from vlib import build, gen, runner


def scenario_cases(seed, tier):
    """(name, case, preexisting {relative final name: bytes}) - {plain, gzip, xz} x {single, rotations, onto existing, destroy +- buffered}"""
    out = []
    idx = 0
    shapes = ['single', 'rot3', 'onto_existing', 'onto_current', 'empty_rotation', 'destroy_buffered', 'destroy_clean', 'part_unusable', 'long_strings']
    nvar = 1 if tier == 'quick' else 4
    for var in range(nvar):
        for comp in ('none', 'gzip', 'xz'):
            for shape in shapes:
                if tier == 'quick' and shape == 'destroy_clean' and comp != 'none':
                    continue
                r = gen.seeded(seed, 'sys', comp, shape, var)
                pre = gen.gen_preamble(r, nbps=1, maxi=r.choice([4, 8]), hints=(gen.ALL_QRH, gen.ALL_SIGH, 3, 3), tps=1000)
                pre['bps'][0].pop('cp', None)
                P = gen.Pools(r, big=True)
                cid = 's%02d' % idx
                idx += 1

                def recs(n):
                    return [{'op': 'qr', 'r': gen.gen_qr(r, P, 1000, 10 ** 9, 'full')} for _ in range(n)]
                nrec = r.choice([6, 12]) if var == 0 else r.choice([3, 20, 60])
                ops = recs(nrec)
                pre_files = {}
                if shape == 'single':
                    ops += [{'op': 'wb'}]
                elif shape == 'rot3':
                    ops += [{'op': 'rotate', 'id': 'o1', 'export': True}] + recs(nrec) + [{'op': 'rotate', 'id': 'o2', 'export': False}, {'op': 'wb'}] + recs(3) + [{'op': 'rotate', 'id': 'o3', 'export': True}]
                elif shape == 'onto_existing':
                    # o1's final name exists before the scenario starts; later the exporter rotates back onto o0's own (now complete) name
                    pre_files['o1'] = b'OLD-CONTENT-OF-AN-EARLIER-RUN' * 7
                    ops += [{'op': 'rotate', 'id': 'o1', 'export': True}] + recs(nrec) + [{'op': 'rotate', 'id': 'o0', 'export': True}] + recs(2) + [{'op': 'wb'}]
                elif shape == 'onto_current':
                    # rotation onto the very name that is being written (e.g. time-stamped names within one second)
                    ops += [{'op': 'rotate', 'id': 'o0', 'export': True}] + recs(nrec + 3) + [{'op': 'rotate', 'id': 'o0', 'export': True}] + recs(2) + [{'op': 'wb'}]
                elif shape == 'empty_rotation':
                    # an output that is opened and closed again without receiving a block (e.g. timed rotation, no traffic)
                    ops += [{'op': 'rotate', 'id': 'o1', 'export': True}, {'op': 'rotate', 'id': 'o2', 'export': False}] + recs(3) + [{'op': 'rotate', 'id': 'o3', 'export': True}]
                elif shape == 'part_unusable':
                    # a destination whose final name could be created but whose '<name><suffix>.part' cannot (name 5 bytes short of the
                    # file system's limit / a directory in the way): the rotation must fail; it must never write to the final name instead
                    ops += [{'op': 'rotate_bad', 'id': 'v1', 'export': True, 'how': 'longname' if idx % 2 else 'partdir'},
                            {'op': 'rotate', 'id': 'o2', 'export': False}] + recs(3) + [{'op': 'wb'}]
                elif shape == 'long_strings':
                    # strings longer than the encoder's staging buffer (an encoder may hand them to the writer directly)
                    big = [{'op': 'qr', 'r': {'tid': 1, 'qname': gen.rbytes(r, 2500).hex(), 'ts': [1000, 5]}},
                           {'op': 'mm', 'r': {'ts': [1000, 7], 'cport': 5, 'pl': gen.rbytes(r, 5000).hex()}},
                           {'op': 'qr', 'r': {'tid': 2, 'optrd': gen.rbytes(r, 2049).hex(), 'sip': '0a000001'}}]
                    ops = recs(2) + big + [{'op': 'wb'}] + recs(2) + big[1:2] + [{'op': 'rotate', 'id': 'o1', 'export': True}] + recs(2) + big[:1] + [{'op': 'wb'}]
                elif shape == 'destroy_buffered':
                    ops += [{'op': 'wb'}] + recs(2)
                elif shape == 'destroy_clean':
                    ops += [{'op': 'wb'}]
                case = {'id': cid, 'preamble': pre, 'open': {'id': 'o0', 'kind': 'name', 'comp': comp}, 'ops': ops}
                out.append(('%s/%s/%d' % (comp, shape, var), case, pre_files))
    return out


def suffix(comp):
    return {'none': '', 'gzip': '.gz', 'xz': '.xz'}[comp]


def prepare_dir(base, tag, case, pre_files):
    d = os.path.join(base, tag)
    os.makedirs(d)
    for oid, data in pre_files.items():
        with open(os.path.join(d, '%s_%s%s' % (case['id'], oid, suffix(case['open']['comp']))), 'wb') as f:
            f.write(data)
    return d


def sysrun(exe, case, d, plan, timeout=300, cpu=40, fsize=256 << 20):
    """run one export case in directory d under an interposition plan; -> (rc, result-log or None, syscall log entries, stderr)"""
    cf = os.path.join(d, '_case.jsonl')
    with open(cf, 'w') as f:
        f.write(json.dumps(case) + '\n')
    plan = dict(plan, watch=d + '/' + case['id'] + '_')
    env = {'VDRV_SYS': json.dumps(plan), 'VDRV_SYSLOG': os.path.join(d, '_sys.log')}
    # CPU-time and file-size limits: a library that loops (or writes for ever) under a fault dies with SIGXCPU / SIGXFSZ and is
    # reported by the caller, instead of filling the disk until a wall-clock watchdog fires
    rc, out, err, to = runner.run_limited(exe, ['export', cf, d, os.path.join(d, '_res.jsonl')], env=env, timeout=timeout, cpu=cpu, fsize=fsize)
    res = None
    rp = os.path.join(d, '_res.jsonl')
    if os.path.exists(rp):
        for line in open(rp):
            if line.strip():
                res = json.loads(line)
    sl = []
    sp = os.path.join(d, '_sys.log')
    if os.path.exists(sp):
        for line in open(sp):
            try:
                sl.append(json.loads(line))
            except ValueError:
                pass
    return (None if to else rc), res, sl, err


def final_files(d, case):
    """{file name: bytes} of everything in d that belongs to the case and is not a .part / harness file"""
    out = {}
    for f in os.listdir(d):
        if f.startswith('_') or not f.startswith(case['id'] + '_') or os.path.isdir(os.path.join(d, f)):
            continue
        with open(os.path.join(d, f), 'rb') as fh:
            out[f] = fh.read()
    return out
