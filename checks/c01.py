"""C01 - export -> file -> read returns exactly the records that were buffered (DESIGN 4/C01)."""
from vlib import gen, pipeline
from .common import ExportRun, sample_of

PROP, LEVEL = 'C01', 'exploration'


def make_cases(tier, seed):
    n = 1000 if tier == 'quick' else 8000
    cases = []
    for i in range(n):
        r = gen.seeded(seed, 'C01', i)
        style = i % 8
        kw = dict(direct=False, rotations=False, addbp=(style == 5))
        if style == 0:
            kw.update(nops=r.choice([40, 120]), big=True)
        elif style == 1:
            kw.update(preamble=gen.gen_preamble(r, nbps=r.choice([2, 3, 4])), weights=dict(setactive=12, wb=10))
        elif style == 2:
            kw.update(stats_p=0.8)
            if i % 24 == 2:
                # tick rates finer than nanoseconds (the property only asks for ticks_per_second >= 1)
                kw.update(preamble=gen.gen_preamble(r, nbps=r.choice([1, 2]), tps=r.choice([10 ** 12, 3 * 10 ** 9, 2 ** 40, 10 ** 9 + 1])))
        elif style == 4 and i % 16 == 4:
            # a few records with strings longer than the decoder window and several encoder buffers
            kw.update(huge=0.05, nops=r.choice([10, 30]), preamble=gen.gen_preamble(r, nbps=1, hints=(gen.ALL_QRH, gen.ALL_SIGH, 3, 3)))
        elif style == 3:
            kw.update(preamble=gen.gen_preamble(r, nbps=1, maxi=r.choice([0, 1, 2, 3])), nops=r.choice([10, 40]))
        elif style == 6 and tier != 'quick' and i % 64 == 6:
            # files of several decoder windows with blocks larger than the encoder buffer
            kw.update(nops=2500, big=True, preamble=gen.gen_preamble(r, nbps=1, maxi=r.choice([50, 10000]), hints=(gen.ALL_QRH, gen.ALL_SIGH, 3, 3)), comp='none')
        elif style == 7 and i % 40 == 7:
            kw.update(nops=900, big=True, preamble=gen.gen_preamble(r, nbps=1, maxi=10000, hints=(gen.ALL_QRH, gen.ALL_SIGH, 3, 3)))
        cases.append(gen.gen_history(r, 'c%05d' % i, **kw))
    return cases


def run(tier, seed):
    cases = make_cases(tier, seed)
    er = ExportRun(PROP, cases, 'c01', need_lib_read=True)
    try:
        vs = er.violations
        fields = {}
        for pc in er.per_case:
            if pc is None:
                continue
            vs += pipeline.judge_roundtrip(PROP, pc['case'], pc['outs'], pc['exp_out'], pc['docs'], er.dumps)
            for o in pc['exp_out']:
                for b in o['blocks']:
                    for q in b.qr:
                        for k in q:
                            fields[k] = fields.get(k, 0) + 1
        obs = dict(er.obs)
        obs['qr_fields_expected_back'] = fields
        obs['outputs_read_by_library_reader'] = len(er.dumps)
        nt = er.nontrivial(lambda pc: sum(len(o['blocks']) for o in pc['exp_out']) >= 1 and
                           (sum(1 for k in ('qr', 'aec', 'mm') if any(op['op'] == k for op in pc['case']['ops'])) >= 2 or pc['model'].flushes_by_size >= 1))
        cov = dict(evaluations=len(cases), distinct_nontrivial=nt,
                   rule='seeded record streams through CdnsExporter (hint masks, 1-4 parameter sets, all tick rates/block sizes, interleaved write_block); '
                        'non-trivial = >= 1 block written and (>= 2 record kinds or >= 1 size-triggered flush); compared: reference model vs independent RFC 8618 interpretation vs CdnsReader dump',
                   samples=[sample_of(c) for c in cases[:2]], observed=obs)
        return dict(violations=vs, coverage=cov,
                    assumptions=['timestamps generated normalised for the tick rate of the block that stores them, secs*tps+ticks < 2^63',
                                 'statistics passed together with a hint-excluded address event / malformed message are not generated (corner not fixed by the property)'])
    finally:
        er.close()
