"""C12 - buffering conserves records and flushes blocks exactly at the configured size (DESIGN 4/C12)."""
import itertools

from vlib import gen, pipeline
from .common import ExportRun, sample_of

PROP, LEVEL = 'C12', 'exploration'

ALPHA = ['qr', 'qu', 'a1', 'a2', 'mm', 'wb', 's0', 's1']


def preamble(M):
    bp0 = {'tps': 1000, 'max': M, 'qrh': gen.ALL_QRH, 'sigh': gen.ALL_SIGH, 'rrh': 3, 'oth': 3, 'opcodes': [0], 'rrtypes': [1]}
    # second set: only the client port of a Q/R is storable, address events excluded, another block size
    bp1 = {'tps': 1000, 'max': (M + 2) % 4, 'qrh': 1 << 2, 'sigh': 0, 'rrh': 0, 'oth': 1, 'opcodes': [0], 'rrtypes': [1]}
    return {'major': 1, 'minor': 0, 'private': None, 'bps': [bp0, bp1]}


def op_of(sym, n):
    if sym == 'qr':
        return {'op': 'qr', 'r': {'ts': [100 + n, n % 1000], 'cport': 1000 + n, 'tid': n}}
    if sym == 'qu':
        return {'op': 'qr', 'r': {'tid': n}}                       # storable under set 0 only
    if sym == 'a1':
        return {'op': 'aec', 'r': {'t': 1, 'ip': '0a000001'}}
    if sym == 'a2':
        return {'op': 'aec', 'r': {'t': 2, 'code': 3, 'ip': '0a000002'}}
    if sym == 'mm':
        return {'op': 'mm', 'r': {'ts': [100 + n, 5], 'cport': 2000 + n, 'pl': '%04x' % n}}
    if sym == 'wb':
        return {'op': 'wb'}
    if sym == 's0':
        return {'op': 'setactive', 'idx': 0}
    if sym == 's1':
        return {'op': 'setactive', 'idx': 1}
    raise ValueError(sym)


def case_of(cid, M, seq):
    ops = []
    for n, s in enumerate(seq):
        ops.append(op_of(s, n))
        ops.append({'op': 'counters'})
    return {'id': cid, 'preamble': preamble(M), 'open': {'id': 'o0', 'kind': 'fd', 'comp': 'none'}, 'ops': ops}


def make_cases(tier, seed):
    L = 4 if tier == 'quick' else 5
    cases = []
    n = 0
    for M in (0, 1, 2, 3):
        for l in range(1, L + 1):
            for seq in itertools.product(ALPHA, repeat=l):
                cases.append(case_of('e%d_%06d' % (M, n), M, seq))
                n += 1
    exhaustive = len(cases)
    nr = 300 if tier == 'quick' else 4000
    for i in range(nr):
        r = gen.seeded(seed, 'C12', i)
        if i % 2 == 0:
            M = r.choice([0, 1, 2, 3, 7])
            seq = [r.choice(ALPHA) for _ in range(r.randrange(6, 300))]
            cases.append(case_of('r%05d' % i, M, seq))
        else:
            pre = gen.gen_preamble(r, nbps=r.choice([1, 2, 3]), maxi=None)
            for bp in pre['bps']:
                bp['max'] = r.choice([0, 1, 2, 3, 7])
            c = gen.gen_history(r, 'r%05d' % i, preamble=pre, direct=False, rotations=False, addbp=False, nops=r.choice([20, 80, 200]),
                                weights=dict(counters=25, setactive=10, wb=8), kind='fd', comp='none')
            cases.append(c)
    return cases, exhaustive, L


def run(tier, seed):
    cases, exhaustive, L = make_cases(tier, seed)
    er = ExportRun(PROP, cases, 'c12', need_lib_read=False)
    try:
        vs = er.violations
        states = set()
        calls = 0
        for pc in er.per_case:
            if pc is None:
                continue
            c = pc['case']
            vs += pipeline.judge_flush(PROP, c, pc['res'], pc['exp'], pc['exp_out'], pc['docs'])
            vs += pipeline.judge_roundtrip(PROP, c, pc['outs'], pc['exp_out'], pc['docs'], {})
            for e in pc['res']['log']:
                if e.get('op') == 'counters' and 'items' in e:
                    states.add((e['qr'], e['aec'], e['mm'], e['active'], min(e['blocks'], 3)))
                calls += 1
        obs = dict(er.obs)
        obs.update(exhaustive_sequences=exhaustive, exhaustive_length=L, alphabet=ALPHA, max_block_items=[0, 1, 2, 3],
                   distinct_counter_states_observed=len(states), api_calls_checked=calls)
        nt = er.nontrivial(lambda pc: pc['model'].flushes_by_size + pc['model'].flushes_explicit >= 1)
        cov = dict(evaluations=len(cases), distinct_nontrivial=nt,
                   rule='ALL call sequences of length 1..%d over {qr, qr-unstorable-under-set-1, aec-key1, aec-key2, mm, write_block, set_active(0), set_active(1)} x max_block_items in {0,1,2,3} '
                        '(two parameter sets with different sizes/hints), counters queried after every call; then random sequences up to 300 calls; '
                        'non-trivial = at least one block was written; oracle: reference state machine (return non-zero iff flush, five counters, active index) + conservation of records via the independent interpreter' % L,
                   samples=[sample_of(cases[100], 8), sample_of(cases[-1], 6)], observed=obs, exhaustive=False)
        return dict(violations=vs, coverage=cov)
    finally:
        er.close()
