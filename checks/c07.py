"""C07 - the CBOR decoder accepts every well-formed encoding and skips exactly one item (DESIGN 4/C07)."""
import struct

from vlib import cbor, gen, runner
from vlib.cbor import Node
from vlib.findings import Violation

PROP, LEVEL = 'C07', 'exploration'
W = 65535   # decoder window

KINDS = ['starts_seq', 'uint', 'negint', 'bool', 'bstr', 'tstr', 'bstr_indef', 'tstr_indef', 'arr', 'arr_indef', 'map', 'map_indef', 'brk', 'arr_u',
         'skip_scalar', 'skip_nested', 'skip_tag', 'skip_float', 'skip_deep']


def rand_width(r, n):
    ws = [w for w in (0, 1, 2, 4, 8) if w >= cbor.min_width(n)]
    return r.choice(ws) if r.random() < 0.6 else ws[0]


def rand_uint(r):
    return gen.bound_uint(r, 64)


def chunked(r, major, data):
    """indefinite-length string node with random chunking (incl. empty chunks / no chunk at all)"""
    chunks = []
    pos = 0
    while pos < len(data):
        n = r.choice([0, 1, 2, 5, 23, 24, 100, len(data) - pos])
        n = min(n, len(data) - pos)
        chunks.append((rand_width(r, n), data[pos:pos + n]))
        pos += n
    if r.random() < 0.2:
        chunks.insert(r.randrange(len(chunks) + 1), (rand_width(r, 0), b''))
    return Node(major, data, 0, True, chunks)


def rand_item(r, depth=0, maxdepth=6):
    """random well-formed item from the full grammar"""
    k = r.random()
    if depth >= maxdepth:
        k = k * 0.55
    if k < 0.12:
        n = rand_uint(r)
        return Node(cbor.UINT, n, rand_width(r, n))
    if k < 0.22:
        n = rand_uint(r)
        return Node(cbor.NEG, -1 - n, rand_width(r, n))
    if k < 0.34:
        b = gen.rbytes(r, r.choice([0, 1, 5, 23, 24, 60, 255, 256, 300]))
        m = r.choice([cbor.BSTR, cbor.TSTR])
        return chunked(r, m, b) if r.random() < 0.4 else Node(m, b, rand_width(r, len(b)))
    if k < 0.42:
        return Node(cbor.SIMPLE, ('simple', r.choice([0, 19, 20, 21, 22, 23, 32, 100, 255])))
    if k < 0.50:
        return Node(cbor.SIMPLE, ('float', gen.rbytes(r, r.choice([2, 4, 8]))))
    if k < 0.55:
        t = rand_uint(r)
        return Node(cbor.TAG, (t, rand_item(r, depth + 1, maxdepth)), rand_width(r, t))
    if k < 0.78:
        n = r.choice([0, 1, 2, 3, 5])
        items = [rand_item(r, depth + 1, maxdepth) for _ in range(n)]
        indef = r.random() < 0.45
        return Node(cbor.ARRAY, items, None if indef else rand_width(r, n), indef)
    n = r.choice([0, 1, 2, 3])
    pairs = [(rand_item(r, depth + 1, maxdepth), rand_item(r, depth + 1, maxdepth)) for _ in range(n)]
    indef = r.random() < 0.45
    return Node(cbor.MAP, pairs, None if indef else rand_width(r, n), indef)


def deep_item(r, depth):
    kind = r.choice(['arr', 'arr_indef', 'map', 'tag', 'mixed'])
    node = Node(cbor.UINT, 7, 0)
    for i in range(depth):
        k = kind if kind != 'mixed' else r.choice(['arr', 'arr_indef', 'map', 'tag'])
        if k == 'arr':
            node = Node(cbor.ARRAY, [node], 0)
        elif k == 'arr_indef':
            node = Node(cbor.ARRAY, [node], 0, True)
        elif k == 'map':
            node = Node(cbor.MAP, [(Node(cbor.UINT, 1, 0), node)], 0)
        else:
            node = Node(cbor.TAG, (i % 24, node), 0)
    return node


def make_item(kind, r):
    """-> (bytes, ops, expected results)"""
    if kind == 'uint':
        n = rand_uint(r)
        b = cbor.enc_head(0, n, rand_width(r, n))
        if n < 2 ** 63 and r.random() < 0.3:
            return b, ['i'], [n]
        return b, ['u'], [n]
    if kind == 'negint':
        n = gen.bound_uint(r, 63)
        b = cbor.enc_head(1, n, rand_width(r, n))
        return b, [r.choice(['n', 'i'])], [-1 - n]
    if kind == 'bool':
        v = r.random() < 0.5
        return cbor.REF_BOOL[v], ['b'], [v]
    if kind in ('bstr', 'tstr', 'bstr_indef', 'tstr_indef'):
        data = gen.rbytes(r, r.choice([0, 1, 2, 23, 24, 25, 100, 255, 256, 257, 1000, 70000 if r.random() < 0.05 else 3]))
        m = cbor.BSTR if kind.startswith('b') else cbor.TSTR
        node = chunked(r, m, data) if kind.endswith('indef') else Node(m, data, rand_width(r, len(data)))
        return cbor.encode(node), ['bs' if m == cbor.BSTR else 'tx'], [data.hex()]
    if kind in ('arr', 'map'):
        n = rand_uint(r)
        return cbor.enc_head(4 if kind == 'arr' else 5, n, rand_width(r, n)), [kind], [[n, False]]
    if kind == 'arr_indef':
        return b'\x9f', ['arr'], [[0, True]]
    if kind == 'map_indef':
        return b'\xbf', ['map'], [[0, True]]
    if kind == 'brk':
        return b'\xff', ['brk'], ['ok']
    if kind == 'starts_seq':
        # several container starts in a row, definite and indefinite mixed (a walker reuses its flag variable)
        b, ops, exp = b'', [], []
        for _ in range(r.choice([2, 3, 5])):
            which = r.choice(['arr', 'map'])
            if r.random() < 0.5:
                b += b'\x9f' if which == 'arr' else b'\xbf'
                exp.append([0, True])
            else:
                n = r.choice([0, 1, 2, 23, 24, 1000, rand_uint(r)])
                b += cbor.enc_head(4 if which == 'arr' else 5, n, rand_width(r, n))
                exp.append([n, False])
            ops.append(which)
        return b, ops, exp
    if kind == 'arr_u':
        vals = [rand_uint(r) for _ in range(r.choice([0, 1, 2, 5, 30]))]
        indef = r.random() < 0.5
        node = Node(cbor.ARRAY, [Node(cbor.UINT, v, rand_width(r, v)) for v in vals], None if indef else rand_width(r, len(vals)), indef)
        return cbor.encode(node), ['arr_u'], [vals]
    if kind == 'skip_scalar':
        node = rand_item(r, 6, 6)
    elif kind == 'skip_nested':
        node = rand_item(r, 0, r.choice([2, 4, 8]))
        if node.major < cbor.ARRAY:
            node = Node(cbor.ARRAY, [node, rand_item(r, 1, 5)], None, r.random() < 0.5)
    elif kind == 'skip_tag':
        t = rand_uint(r)
        node = Node(cbor.TAG, (t, rand_item(r, 1, 4)), rand_width(r, t))
    elif kind == 'skip_float':
        node = Node(cbor.SIMPLE, ('float', gen.rbytes(r, r.choice([2, 4, 8])))) if r.random() < 0.7 else Node(cbor.SIMPLE, ('simple', r.choice([32, 255, 24 + 8])))
    else:
        node = deep_item(r, r.choice([32, 100, 1000, 20000]))
    return cbor.encode(node), ['skip'], ['ok']


PEEK = {0: 0x00, 1: 0x20, 2: 0x40, 3: 0x60, 4: 0x80, 5: 0xa0, 6: 0xc0, 7: 0xe0}


def make_case(cid, kind, r, offset):
    item, ops, exp = make_item(kind, r)
    sentinel = r.randrange(2 ** 31, 2 ** 32)
    segs = []
    pre_ops, pre_exp = [], []
    if offset > 0:
        # prefix = one definite-length string (or array of one-byte ints) that ends exactly at `offset`
        if offset >= 70 and r.random() < 0.3:
            n = offset - 3
            if n > 65535:
                n = offset - 5
                head = cbor.enc_head(4, n, 4)
            else:
                head = cbor.enc_head(4, n, 2)
            segs.append({'hex': head.hex()})
            segs.append({'rep': '05', 'n': n})
        else:
            best = None
            for w in (0, 1, 2, 4):
                n = offset - 1 - w
                if n >= 0 and cbor.min_width(n) <= w:
                    best = (w, n)
                    break
            w, n = best
            segs.append({'hex': cbor.enc_head(2, n, w).hex()})
            if n:
                segs.append({'rep': 'ab', 'n': n})
        pre_ops, pre_exp = ['skip'], ['ok']
    segs.append({'hex': (item + cbor.enc_head(0, sentinel, 4)).hex()})
    first = item[0]
    peek_exp = 0xff if first == 0xff else PEEK[first >> 5]
    ops2 = pre_ops + ['peek'] + ops + ['peek', 'u', 'peek']
    exp2 = pre_exp + [peek_exp] + exp + [0x00, sentinel, {'exc': 'CdnsDecoderEnd'}]
    if kind == 'brk':
        # an indefinite container start before the break: the shared flag variable must come back FALSE from a later definite start
        pass
    return {'id': cid, 'stream': r.choice(['sstream', 'sstream', 'ifstream']), 'segs': segs, 'ops': ops2}, exp2, kind, offset, len(item)


def make_cases(tier, seed):
    per_kind_boundary = 4 if tier == 'quick' else 40
    n_random = 25000 if tier == 'quick' else 300000
    out = []
    i = 0
    offs = list(range(W - 12, W + 13)) + [2 * W - 9, 2 * W - 1, 2 * W, 2 * W + 1]
    for kind in KINDS:
        for off in offs:
            for j in range(per_kind_boundary if off < 2 * W - 10 else 1):
                r = gen.seeded(seed, 'C07b', kind, off, j)
                out.append(make_case('b%06d' % i, kind, r, off))
                i += 1
    for j in range(n_random):
        r = gen.seeded(seed, 'C07r', j)
        kind = KINDS[j % len(KINDS)]
        off = r.choice([0, 0, 0, 1, 5, 100]) if r.random() < 0.97 else r.randrange(0, 3 * W)
        out.append(make_case('r%06d' % i, kind, r, off))
        i += 1
    return out


def run(tier, seed):
    full = make_cases(tier, seed)
    cases = [c[0] for c in full]
    results, crashes, wd = runner.run_cases('asan', 'dec', cases, 'c07', pre_args_fn=lambda w: [w], shards=16)
    try:
        vs = []
        for c in crashes:
            kind = full[c.case_index][2]
            vs.append(Violation(PROP, '%s:%s' % (PROP, c.key_tail()), 'decoder driver died on a well-formed %s item: %s in %s' % (kind, c.cls, c.func), {'case': cases[c.case_index], 'report': c.excerpt}))
        seen = {}
        straddle = 0
        for i, (case, exp, kind, off, ilen) in enumerate(full):
            r = results.get(i)
            if r is None:
                continue
            seen[kind] = seen.get(kind, 0) + 1
            if off // W != (off + ilen) // W or (W - 12 <= off <= W + 12):
                straddle += 1
            got = r['res']
            if not r.get('hook', True):
                vs.append(Violation(PROP, '%s:hook:decoder-window' % PROP, 'decoder position left its window (m_p > m_end) while reading a %s item at offset %d' % (kind, off), {'case': case}))
            for oi, (op, e) in enumerate(zip(case['ops'], exp)):
                g = got[oi] if oi < len(got) else None
                if g != e:
                    what = 'sentinel' if (op == 'u' and oi == len(exp) - 2) else ('end-of-input' if oi == len(exp) - 1 else op)
                    bucket = 'boundary' if W - 12 <= off <= 2 * W + 2 else 'plain'
                    vs.append(Violation(PROP, '%s:%s:%s:%s' % (PROP, kind, what, 'exc' if isinstance(g, dict) else 'value'),
                                        '%s item at offset %d (%s): op %s returned %s, RFC 8949 says %s' % (kind, off, bucket, op, str(g)[:80], str(e)[:80]), {'case': case, 'op_index': oi, 'expected': exp}))
                    break
        obs = dict(items_per_kind=seen, items_at_or_across_window_boundary=straddle, offsets_exhaustive_around_boundary='65535-12 .. 65535+12', crashes=len(crashes))
        cov = dict(evaluations=len(cases), distinct_nontrivial=len({(k, o, l) for _, _, k, o, l in full}),
                   rule='generated well-formed RFC 8949 items (all majors, non-preferred head widths, chunked strings, nesting up to 20000, tags, floats, simple values) each followed by a unique sentinel; '
                        'placed at every offset 65535-12..65535+12 and at random offsets; distinct = distinct (kind, offset, encoded length); oracle = generator ground truth, sentinel read next, then end-of-input',
                   samples=[{'case': full[0][0], 'expected': full[0][1]}, {'case': full[-1][0], 'expected': full[-1][1]}], observed=obs)
        return dict(violations=vs, coverage=cov,
                    assumptions=['negative integers restricted to >= -2^63 and read_integer to < 2^63 (range of the int64 return type)'])
    finally:
        runner.cleanup(wd)
