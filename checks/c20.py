"""C20 - independent exporter/reader instances are safe to use from concurrent threads (DESIGN 4/C20)."""
import json
import os
import re

from vlib import build, cbor, cdns_schema, gen, rewrite, runner
from vlib.findings import Violation
from .common import ExportRun, sample_of
from . import c07

PROP, LEVEL = 'C20', 'exploration'


def make_cases(seed, run, n):
    cases = []
    for i in range(n):
        r = gen.seeded(seed, 'C20', run, i)
        pre = gen.gen_preamble(r, nbps=r.choice([1, 2]))
        comp = ['none', 'none', 'gzip', 'xz'][i % 4]
        cases.append(gen.gen_history(r, 'r%dw%03d' % (run, i), preamble=pre, comp=comp, kind=r.choice(['name', 'fd']), nops=r.choice([10, 40, 120]), big=(i % 5 == 0),
                                     weights=dict(rotate=4, rotate_bad=2)))
    return cases


def foreign_inputs(seed, wd):
    """C-DNS files in encodings the library's own encoder never emits (every string chunked, containers indefinite, heads widened,
    maps permuted, unknown members with nested values), written under wd.  -> (paths, counts of applied rewrites, violations)"""
    cases = []
    for i in range(16):
        r = gen.seeded(seed, 'C20f', i)
        pre = gen.gen_preamble(r, rich=(i % 2 == 1), nbps=r.choice([1, 2]))
        for bp in pre['bps']:
            if bp['tps'] == 0 or bp['tps'] > 10 ** 9:
                bp['tps'] = 1000
        cases.append(gen.gen_history(r, 'f%02d' % i, comp='none', kind='name', rotations=False, nops=r.choice([10, 30, 60]), preamble=pre))
    er = ExportRun(PROP, cases, 'c20f', need_lib_read=False)
    paths, totals = [], {k: 0 for k in rewrite.KINDS}
    try:
        n = 0
        for pc in er.per_case:
            if not pc:
                continue
            for o in pc['outs']:
                if not (o.data and o.id in pc['docs']):
                    continue
                for j in range(2):
                    r = gen.seeded(seed, 'C20fr', n, j)
                    try:
                        new, counts = rewrite.rewrite(r, o.data, None, p=0.9, value_gen=lambda rr: c07.rand_item(rr, 0, rr.choice([1, 3, 6])))
                        a, b = cdns_schema.parse(o.data), cdns_schema.parse(new)
                        if a.preamble != b.preamble or a.blocks != b.blocks:
                            continue
                    except (cbor.CborError, cdns_schema.SchemaError):
                        continue
                    for k, v in counts.items():
                        totals[k] += v
                    p = os.path.join(wd, 'foreign_%03d_%d.cdns' % (n, j))
                    with open(p, 'wb') as f:
                        f.write(new)
                    paths.append(p)
                n += 1
    finally:
        er.close()
    return paths, totals, []


def load_results(path, wd):
    out = {}
    if not os.path.exists(path):
        return out
    for line in open(path):
        line = line.strip()
        if not line or line == 'null':
            continue
        j = json.loads(line.replace(wd, '@WD@'))
        out[j['id']] = j
    return out


def strip(j):
    j = dict(j)
    for k in ('tid', 't0', 't1', 'interleaved'):
        j.pop(k, None)
    return j


def tsan_reports(wd):
    reps = []
    for f in os.listdir(wd):
        if f.startswith('tsan.'):
            txt = open(os.path.join(wd, f), errors='replace').read()
            for block in txt.split('==================')[:]:
                if 'WARNING: ThreadSanitizer' in block:
                    reps.append(block.strip())
    return reps


def report_key(block):
    m = re.search(r'WARNING: ThreadSanitizer: ([^\(\n]+)', block)
    kind = m.group(1).strip().replace(' ', '-') if m else 'report'
    funcs = []
    for line in block.splitlines():
        fm = re.match(r'\s*#\d+ (.+?) (/\S+?):\d+', line)
        if fm and ('/src/' in fm.group(2)) and '/drv/' not in fm.group(2):
            f = re.sub(r'\(.*', '', fm.group(1)).strip()
            if f not in funcs:
                funcs.append(f)
        if len(funcs) >= 2:
            break
    loc = re.search(r"Location is (global|heap block|stack|file descriptor)[^\n]*?('[^']+')?", block)
    return 'tsan-%s:%s' % (kind, '|'.join(funcs) or 'unknown-frame')


def run(tier, seed):
    vs = []
    drvd, _ = build.ensure('tsan')
    exe = os.path.join(drvd, 'vdrv')
    plan = [(8, 40), (2, 24), (16, 48), (4, 32)] if tier == 'quick' else [(t, 48) for t in (2, 3, 4, 8, 12, 16) for _ in range(7)]
    total_jobs = overlaps = reports_total = compared_files = calls = interleaved = 0
    threads_seen = set()
    samples = []
    wd_f = runner.workdir('c20f')
    foreign, foreign_counts, _ = foreign_inputs(seed, wd_f)
    foreign_reads = 0
    for run_i, (T, n) in enumerate(plan):
        cases = make_cases(seed, run_i, n)
        if foreign:
            for ci, c in enumerate(cases):
                c['foreign'] = [foreign[(ci * 3 + k + run_i) % len(foreign)] for k in range(3)]
        if not samples:
            samples = [sample_of(cases[0], 3)]
        wd_seq, wd_mt = runner.workdir('c20s'), runner.workdir('c20m')
        try:
            for wd, threads in ((wd_seq, 1), (wd_mt, T)):
                cf_path = os.path.join(wd, 'cases.jsonl')
                with open(cf_path, 'w') as f:
                    for c in cases:
                        f.write(json.dumps(c) + '\n')
                env = {'TSAN_OPTIONS': 'halt_on_error=0:exitcode=66:history_size=4:log_path=%s' % os.path.join(wd, 'tsan')}
                rc, out, err, to = runner.run_tool(exe, ['mt', cf_path, wd, os.path.join(wd, 'results.jsonl'), str(threads), str(seed * 131 + run_i)], env=env, timeout=1200)
                um = re.search(r'^UMASK (\d+) (\d+)$', out, re.M)
                if um and um.group(1) != um.group(2):
                    vs.append(Violation(PROP, '%s:process-state:umask' % PROP, 'the process umask changed from %s to %s during a run with %d thread(s)' % (um.group(1), um.group(2), threads), {'run': run_i, 'threads': threads}))
                if to:
                    vs.append(Violation(PROP, '%s:hang:threads-%d' % (PROP, threads), 'threaded run did not finish', {'run': run_i, 'threads': threads}))
                elif rc not in (0, 66):
                    tr = runner.triage(err, rc) or ('exit-%s' % rc, 'unknown-frame', err[-1500:])
                    vs.append(Violation(PROP, '%s:%s:%s' % (PROP, tr[0], tr[1]), 'threaded driver died with %d threads: %s in %s' % (threads, tr[0], tr[1]), {'run': run_i, 'report': tr[2]}))
            reps = tsan_reports(wd_mt) + tsan_reports(wd_seq)
            reports_total += len(reps)
            for b in reps:
                vs.append(Violation(PROP, '%s:%s' % (PROP, report_key(b)), 'ThreadSanitizer report with %d threads' % T, {'run': run_i, 'threads': T, 'report': b[:3500]}))
            seq, mt = load_results(os.path.join(wd_seq, 'results.jsonl'), wd_seq), load_results(os.path.join(wd_mt, 'results.jsonl'), wd_mt)
            threads_seen.add(T)
            iv = []
            for c in cases:
                a, b = seq.get(c['id']), mt.get(c['id'])
                if a is None or b is None:
                    vs.append(Violation(PROP, '%s:missing-result' % PROP, 'workload %s produced no result (%s run)' % (c['id'], 'sequential' if a is None else 'threaded'), {'case': c}))
                    continue
                total_jobs += 1
                calls += len(b['log'])
                foreign_reads += len(b.get('foreign_reads') or [])
                for fr in (b.get('foreign_reads') or []):
                    if fr.get('hdr') != 'ok' or fr.get('end') != 'eof':
                        vs.append(Violation(PROP, '%s:foreign-input-unreadable' % PROP, 'workload %s (%d threads): a valid re-encoded file was not read to its end (%s / %s)' % (c['id'], T, fr.get('hdr'), fr.get('end')), {'case': c, 'threads': T}))
                for which, x in (('sequential', a), ('threaded', b)):
                    if x.get('interleaved') is not None:
                        interleaved += 1
                        if x['interleaved'] != 'same':
                            vs.append(Violation(PROP, '%s:interleaved-readers' % PROP, 'workload %s (%s run): two readers alive on one thread and used alternately do not return what each returns alone (%s)' % (c['id'], which, x['interleaved']), {'case': c, 'threads': T}))
                iv.append((b['t0'], b['t1'], b['tid']))
                if strip(a) != strip(b):
                    part = 'log' if a['log'] != b['log'] else ('decoded-records' if a.get('reads') != b.get('reads') else 'decoded-foreign-input')
                    vs.append(Violation(PROP, '%s:differs-from-sequential:%s' % (PROP, part), 'workload %s: %s of the threaded run (%d threads) differ from the sequential run' % (c['id'], part, T), {'case': c, 'threads': T}))
                    continue
                for e in b['log']:
                    if 'closed' in e and e['closed'].get('exists'):
                        p = e['closed']['path']
                        try:
                            da, db = open(p.replace('@WD@', wd_seq), 'rb').read(), open(p.replace('@WD@', wd_mt), 'rb').read()
                        except OSError:
                            continue
                        compared_files += 1
                        if da != db:
                            vs.append(Violation(PROP, '%s:output-bytes-differ:%s' % (PROP, c['open']['comp']), 'workload %s: output %s of the threaded run is not byte-identical to the sequential one' % (c['id'], e['closed']['id']), {'case': c, 'threads': T}))
            iv.sort()
            for x in range(len(iv)):
                for y in range(x + 1, len(iv)):
                    if iv[y][0] >= iv[x][1]:
                        break
                    if iv[y][2] != iv[x][2]:
                        overlaps += 1
        finally:
            runner.cleanup(wd_seq)
            runner.cleanup(wd_mt)
    runner.cleanup(wd_f)
    obs = dict(foreign_inputs=len(foreign), foreign_rewrites=foreign_counts, foreign_reads_in_threaded_runs=foreign_reads, runs=len(plan), thread_counts=sorted(threads_seen), workloads_compared=total_jobs, api_calls_in_threaded_runs=calls, overlapping_workload_pairs_on_different_threads=overlaps,
               tsan_report_blocks=reports_total, output_files_compared_bytewise=compared_files, reader_pairs_used_alternately_on_one_thread=interleaved)
    cov = dict(evaluations=total_jobs, distinct_nontrivial=total_jobs,
               rule='independent export (plain/gzip/xz, name/fd) + read-back + render workloads, plus three re-encoded foreign inputs (chunked strings, indefinite containers, widened heads, unknown members) decoded per workload, assigned round-robin to N threads of one process built with -fsanitize=thread, random yields/sleeps between workloads; '
                    'oracle: zero ThreadSanitizer report blocks; API logs, decoded dumps and output bytes identical to the same workloads run on one thread; every workload is a distinct seeded history',
               samples=samples, observed=obs)
    inc = None
    if overlaps == 0:
        inc = 'no two workloads on different threads overlapped in time'
    elif not foreign or foreign_counts.get('indef_string', 0) == 0 or foreign_reads == 0:
        inc = 'no re-encoded (chunked / indefinite / unknown-member) input was decoded in the threaded runs'
    return dict(violations=vs, coverage=cov, inconclusive=inc,
                assumptions=['zlib, liblzma and libstdc++ are not TSan-instrumented: a race inside them would be invisible'])
