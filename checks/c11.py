"""C11 - block tables de-duplicate, keep indices stable and stay referentially closed (DESIGN 4/C11)."""
from vlib import gen, pipeline, runner, tablemodel
from vlib.findings import Violation
from .common import ExportRun, sample_of

PROP, LEVEL = 'C11', 'exploration'


def make_table_cases(tier, seed):
    n = 800 if tier == 'quick' else 6000
    nops = 400 if tier == 'quick' else 2000
    cases, exps = [], []
    for i in range(n):
        r = gen.seeded(seed, 'C11t', i)
        big = (i % 6 == 0)
        vg = tablemodel.ValueGen(r, big=big)
        m = tablemodel.BlockModel()
        ops = [{'o': 'new', 'b': 0}]
        exp = ['ok']
        last = {}
        k_ops = r.choice([30, nops]) if not big else nops
        for k in range(k_ops):
            x = r.random()
            t = r.choice(tablemodel.TABLES)
            if x < 0.62:
                v = vg.value(t)
                if r.random() < 0.15 and t in last:
                    v = last[t]                       # the value added last to this table, again (also right after a clear)
                ops.append({'o': 'add', 'b': 0, 't': t, 'v': v})
                exp.append(m.add(t, v))
                last[t] = v
            elif x < 0.9:
                n_t = len(m.t[t])
                idx = r.randrange(0, n_t) if n_t and r.random() < 0.85 else n_t + r.randrange(0, 3)
                ops.append({'o': 'get', 'b': 0, 't': t, 'i': idx})
                exp.append(m.get(t, idx))
            elif x < 0.93:
                ops.append({'o': 'clear', 'b': 0})
                exp.append('ok')
                m.clear()
            elif x < 0.97:
                ops.append({'o': 'inv', 'b': 0})
                exp.append('')
            else:
                ops.append({'o': 'tables', 'b': 0})
                exp.append(m.tables_dump())
        ops += [{'o': 'inv', 'b': 0}, {'o': 'tables', 'b': 0}]
        exp += ['', m.tables_dump()]
        cases.append({'id': 't%05d' % i, 'ops': ops})
        exps.append(exp)
    return cases, exps


def make_export_cases(tier, seed):
    n = 300 if tier == 'quick' else 2000
    cases = []
    for i in range(n):
        r = gen.seeded(seed, 'C11e', i)
        pre = gen.gen_preamble(r, nbps=r.choice([1, 2]), maxi=r.choice([1, 2, 3, 7]))
        cases.append(gen.gen_history(r, 'e%05d' % i, preamble=pre, direct=False, rotations=(i % 3 == 0), nops=r.choice([30, 120]), big=(i % 5 == 0)))
    return cases


def run(tier, seed):
    vs = []
    cases, exps = make_table_cases(tier, seed)
    res, crashes, wd = runner.run_cases('asan', 'table', cases, 'c11', pre_args_fn=lambda w: [w])
    runner.cleanup(wd)
    for c in crashes:
        vs.append(Violation(PROP, '%s:%s' % (PROP, c.key_tail()), 'table driver died: %s in %s' % (c.cls, c.func), {'case_id': cases[c.case_index]['id'], 'ops_head': cases[c.case_index]['ops'][:20], 'report': c.excerpt}))
    calls = dedup_hits = growth = 0
    for i, (c, exp) in enumerate(zip(cases, exps)):
        r = res.get(i)
        if r is None:
            continue
        got = r['res']
        for oi, (op, e) in enumerate(zip(c['ops'], exp)):
            g = got[oi] if oi < len(got) else None
            calls += 1
            if op['o'] == 'add' and isinstance(e, int):
                growth = max(growth, e)
            if g != e:
                o = op['o']
                t = op.get('t', '-')
                if o == 'add':
                    why = 'duplicate-not-found' if isinstance(g, int) and isinstance(e, int) and g > e else 'wrong-index'
                    vs.append(Violation(PROP, '%s:add:%s:%s' % (PROP, t, why), 'add of %s to table %s returned %s, a table without duplicates gives %s (op %d)' % (str(op['v'])[:60], t, g, e, oi), {'case_id': c['id'], 'ops': c['ops'][:oi + 1][-40:], 'op_index': oi}))
                elif o == 'get':
                    vs.append(Violation(PROP, '%s:get:%s' % (PROP, t), 'get(%s, %d) returned %s, the value stored there is %s' % (t, op['i'], str(g)[:60], str(e)[:60]), {'case_id': c['id'], 'ops': c['ops'][:oi + 1][-40:]}))
                elif o == 'inv':
                    vs.append(Violation(PROP, '%s:hook:%s' % (PROP, str(g).split(':')[0] if g else 'inv'), 'structural invariant of the block tables broken: %s' % g, {'case_id': c['id'], 'ops': c['ops'][:oi + 1][-40:]}))
                elif o == 'tables':
                    bad = [k for k in e if not isinstance(g, dict) or g.get(k) != e[k]]
                    vs.append(Violation(PROP, '%s:table-content:%s' % (PROP, '+'.join(bad)[:40]), 'tables %s differ from the model after %d ops' % (bad, oi), {'case_id': c['id'], 'ops_tail': c['ops'][max(0, oi - 30):oi + 1]}))
                else:
                    vs.append(Violation(PROP, '%s:%s' % (PROP, o), 'op %s returned %s, expected %s' % (o, g, e), {'case_id': c['id']}))
                break
    ecases = make_export_cases(tier, seed)
    er = ExportRun(PROP, ecases, 'c11e', need_lib_read=False)
    try:
        vs += er.violations
        for pc in er.per_case:
            if pc:
                vs += pipeline.judge_tables(PROP, pc['case'], pc['outs'], pc['docs'])
                # the entries the stored indices denote are the values that were handed in (bottom-up composition: record -> list -> RR -> name/type/rdata)
                vs += pipeline.judge_roundtrip(PROP, pc['case'], pc['outs'], pc['exp_out'], pc['docs'], {})
        obs = dict(table_histories=len(cases), table_api_calls_checked=calls, largest_index_returned=growth, exporter_histories=len(ecases), blocks_checked_for_duplicates_and_reachability=er.obs['blocks'],
                   flushes=er.obs['flush_by_size'] + er.obs['flush_explicit'])
    finally:
        er.close()
    cov = dict(evaluations=len(cases) + len(ecases), distinct_nontrivial=len(cases) + er.nontrivial(lambda pc: len(pc['docs']) >= 1),
               rule='interleaved add/get/clear over the nine block tables (pools of 3-8 values incl. values differing in one optional member and values with equal hashes; large domains for growth/rehash) '
                    'against a list+dict model, hook-checked structural invariant at quiescent points; plus exporter record streams across many flushes: no table with two equal entries, all entries reachable, indices closed, and the entries reached through the stored indices equal the values handed in (independent interpretation); '
                    'all histories distinct (independent seeds)',
               samples=[{'ops': cases[1]['ops'][:8]}, sample_of(ecases[0], 3)], observed=obs)
    return dict(violations=vs, coverage=cov)
