"""C06 - the CBOR encoder emits the RFC 8949 shortest form, independent of buffer position (DESIGN 4/C06)."""
import concurrent.futures as cf
import os
import re

from vlib import build, cbor, gen, pipeline, runner
from vlib.findings import Violation

PROP, LEVEL = 'C06', 'exploration'

OPS_INT = ['u8', 'u16', 'u32', 'u64', 'i8', 'i16', 'i32', 'i64']
OPS18 = OPS_INT + ['bool', 'arr', 'map', 'iarr', 'imap', 'brk', 'bs', 'bsp', 'tx', 'txp']
WIDTH = {'u8': 8, 'u16': 16, 'u32': 32, 'u64': 64, 'i8': 8, 'i16': 16, 'i32': 32, 'i64': 64}
B = 2048      # size of the encoder's staging buffer; replaced by the value the instrumented build reports (query_bufsize)
BND = [0, 1, 23, 24, 255, 256, 65535, 65536, 2 ** 32 - 1, 2 ** 32, 2 ** 63 - 1, 2 ** 63, 2 ** 64 - 1]


def pattern(n, seed):
    base = bytes(((i * 7 + 3 + seed * 31) & 0xff) for i in range(256))
    return (base * (n // 256 + 1))[:n]


def values_for(op, r, k):
    """k-th value of the boundary set for an integer op (cycled), plus randoms"""
    w = WIDTH[op]
    if op[0] == 'u':
        c = [v for v in BND if v < 2 ** w] + [2 ** w - 1]
    else:
        c = [v for v in BND if v < 2 ** (w - 1)] + [2 ** (w - 1) - 1] + [-1 - v for v in BND if v < 2 ** (w - 1)] + [-2 ** (w - 1)]
    return c[k % len(c)]


def op_line(op, r, k, top=False):
    if op in OPS_INT:
        return '%s %d' % (op, values_for(op, r, k))
    if op == 'bool':
        return 'bool %d' % (k & 1)
    if op in ('arr', 'map'):
        return '%s %d' % (op, BND[k % len(BND)])
    if op in ('iarr', 'imap', 'brk'):
        return op
    if top:
        n = [0, 1, 23, 24, 255, 256, 257, B - 1, B, B + 1, 65535, 65536, 65537][k % 13]
    else:
        n = [0, 1, 23, 24, 255, 256, 9, B - 1, B, B + 1, 2 * B + 904][k % 11]
    return '%sn %d %d' % (op, n, k % 251)


def ref_of(desc):
    p = desc.split()
    op = p[0]
    if op in OPS_INT:
        v = int(p[1])
        return cbor.ref_int(v)
    if op == 'bool':
        return cbor.REF_BOOL[p[1] != '0']
    if op == 'arr':
        return cbor.ref_array(int(p[1]))
    if op == 'map':
        return cbor.ref_map(int(p[1]))
    if op == 'iarr':
        return cbor.REF_IARR
    if op == 'imap':
        return cbor.REF_IMAP
    if op == 'brk':
        return cbor.REF_BREAK
    if op in ('bsn', 'bspn', 'txn', 'txpn'):
        b = pattern(int(p[1]), int(p[2]))
    else:
        b = b'' if p[1] == '-' else bytes.fromhex(p[1])
    return cbor.ref_bstr(b) if op.startswith('bs') else cbor.ref_tstr(b)


LINE = re.compile(r'^(.*) = (\S+)(?: (\S+))? @(\d+)( HOOKBAD)?$')


def run_scripts(prop, scripts, tag, comp_kind=None):
    """scripts: list of (name, [lines]) each starting with its own 'open'; returns (violations, observations)"""
    drvd, _ = build.ensure('asan')
    exe = os.path.join(drvd, 'vdrv')
    wd = runner.workdir(tag)
    vs = []
    obs = dict(calls=0, pairs=set(), straddle=0, sequences=len(scripts), bytes=0, flushes_seen=0)

    def one(item):
        idx, (name, lines, outs) = item
        sp = os.path.join(wd, 's%d.txt' % idx)
        rp = os.path.join(wd, 'r%d.txt' % idx)
        with open(sp, 'w') as f:
            f.write('\n'.join(l.replace('@WD@', wd).replace('@I@', str(idx)) for l in lines) + '\n')
        rc, out, err, to = runner.run_tool(exe, ['enc', sp, rp], timeout=900)
        return idx, rc, err, to, rp

    try:
        with cf.ThreadPoolExecutor(max_workers=runner.NCPU) as ex:
            done = list(ex.map(one, list(enumerate(scripts))))
        for idx, rc, err, to, rp in done:
            name, lines, outs = scripts[idx]
            if to:
                vs.append(Violation(prop, '%s:hang:encoder-script' % prop, 'encoder script %s hung' % name, {'script': lines[:50]}))
                continue
            if rc != 0:
                tr = runner.triage(err, rc) or ('exit-%s' % rc, 'unknown-frame', err[-1500:])
                vs.append(Violation(prop, '%s:%s:%s' % (prop, tr[0], tr[1]), 'encoder driver died: %s in %s' % (tr[0], tr[1]), {'script_head': lines[:30], 'report': tr[2]}))
                continue
            # split the result log per output (open/rot start a new output)
            calls, cur = [], []
            for l in open(rp):
                l = l.rstrip('\n')
                if l.startswith('open = ') or l.startswith('rot = '):
                    if l.startswith('rot'):
                        calls.append(cur)
                        cur = []
                    continue
                if l.startswith('close') or l.startswith('fill ='):
                    continue
                m = LINE.match(l)
                if not m:
                    vs.append(Violation(prop, '%s:driver-line' % prop, 'unparsable result line %r' % l[:200], {'script_head': lines[:30]}))
                    continue
                cur.append((m.group(1), m.group(2), m.group(3), int(m.group(4)), bool(m.group(5))))
            calls.append(cur)
            for oi, (path, comp) in enumerate(outs):
                path = path.replace('@WD@', wd).replace('@I@', str(idx))
                seq = calls[oi] if oi < len(calls) else []
                try:
                    raw = open(path, 'rb').read()
                    data = pipeline.decompress(comp, raw)
                except (OSError, pipeline.StreamError) as x:
                    vs.append(Violation(prop, '%s:output-unreadable:%s' % (prop, comp), 'output of script %s: %s' % (name, x), {'script_head': lines[:30]}))
                    continue
                pos = 0
                bad = False
                for desc, ret, extra, fill, hookbad in seq:
                    opn = desc.split()[0]
                    obs['calls'] += 1
                    obs['pairs'].add((opn.rstrip('n') if opn not in OPS_INT else opn, fill))
                    ref = ref_of(desc)
                    if len(ref) + fill > B and len(ref) > 9:
                        obs['straddle'] += 1
                    if hookbad:
                        vs.append(Violation(prop, '%s:hook:buffer-accounting' % prop, 'encoder buffer pointer/available mismatch after %s at fill %d' % (desc[:40], fill), {'desc': desc[:200], 'fill': fill}))
                    if ret == 'EXC':
                        vs.append(Violation(prop, '%s:exception:%s' % (prop, opn), '%s threw %s at fill %d' % (desc[:40], extra, fill), {'desc': desc[:200], 'fill': fill}))
                        bad = True
                        break
                    if int(ret) != len(ref):
                        vs.append(Violation(prop, '%s:return:%s' % (prop, opn.rstrip('n')), '%s at fill level %d returned %s, its encoding has %d bytes' % (desc[:60], fill, ret, len(ref)), {'desc': desc[:200], 'fill': fill}))
                    if not bad and data[pos:pos + len(ref)] != ref:
                        vs.append(Violation(prop, '%s:bytes:%s' % (prop, opn.rstrip('n')), 'output deviates from the reference encoding at call %s (fill level %d, offset %d): got %s, want %s' % (desc[:60], fill, pos, data[pos:pos + min(len(ref), 12)].hex(), ref[:12].hex()), {'desc': desc[:200], 'fill': fill}))
                        bad = True
                    pos += len(ref)
                obs['bytes'] += len(data)
                if not bad and pos != len(data):
                    vs.append(Violation(prop, '%s:bytes:length' % prop, 'output has %d bytes, the calls account for %d' % (len(data), pos), {'script_head': lines[:30]}))
    finally:
        runner.cleanup(wd)
    return vs, obs


def sweep_scripts(tier, seed):
    """18 ops x fill levels 0..2048 (x values): exhaustive over (op, fill)"""
    r = gen.seeded(seed, 'C06sweep')
    scripts = []
    nval = 2 if tier == 'quick' else 13
    for oi, op in enumerate(OPS18):
        for part in range(4 if tier != 'quick' else 1):
            lines = ['open name none @WD@/sw_@I@']
            levels = range(0, B + 1) if tier == 'quick' else range(part, B + 1, 4)
            for L in levels:
                # near the end of the buffer (where a head may not fit any more) every boundary value is tried
                nv = 13 if L >= B - 20 else nval
                for k in range(nv):
                    lines.append('fill %d' % L)
                    lines.append(op_line(op, r, k + (L * (1 if tier == 'quick' else 0) + seed if nv != 13 else 0), top=(L >= B - 20)))
            lines.append('close')
            scripts.append(('sweep-%s-%d' % (op, part), lines, [('@WD@/sw_@I@', 'none')]))
    return scripts


def exhaustive_small(tier, seed):
    scripts = []
    for op, lo, hi in (('u8', 0, 256), ('i8', -128, 128), ('u16', 0, 65536), ('i16', -32768, 32768)):
        step = 16384
        for s in range(lo, hi, step):
            lines = ['open name none @WD@/ex_@I@']
            if (s // step) % 2:
                lines.append('fill %d' % (2033 + (s // step) % 13))
            for v in range(s, min(hi, s + step)):
                lines.append('%s %d' % (op, v))
            lines.append('close')
            scripts.append(('exh-%s-%d' % (op, s), lines, [('@WD@/ex_@I@', 'none')]))
    return scripts


def string_scripts(tier, seed):
    scripts = []
    lens = sorted(set(list(range(0, 40)) + list(range(0, 3 * B + 1, 97)) + [B - 10, B - 9, B - 8, B - 3, B - 2, B - 1, B, B + 1, B + 2, 2 * B - 1, 2 * B, 2 * B + 1, 3 * B - 1, 3 * B])) if tier == 'quick' else list(range(0, 3 * B + 1))
    levels = [0, 1, 9, B // 2, B - 9, B - 8, B - 2, B - 1, B] if tier == 'quick' else list(range(0, B + 1, 64)) + [B - 9, B - 8, B - 1]
    if tier != 'quick':
        # all lengths at 5 levels + every 16th length at every 64th level
        plan = [(L, n) for L in [0, 1, B - 8, B - 1, B] for n in lens] + [(L, n) for L in levels for n in lens[::16]]
    else:
        plan = [(L, n) for L in levels for n in lens]
    chunk = 1500
    for ci in range(0, len(plan), chunk):
        lines = ['open name none @WD@/st_@I@']
        for j, (L, n) in enumerate(plan[ci:ci + chunk]):
            lines.append('fill %d' % L)
            lines.append('%s %d %d' % (['bsn', 'bspn', 'txn', 'txpn'][(ci + j) % 4], n, (ci + j) % 251))
        lines.append('close')
        scripts.append(('str-%d' % ci, lines, [('@WD@/st_@I@', 'none')]))
    return scripts


def sequence_scripts(seed, nseq, salt='C06seq'):
    scripts = []
    for i in range(nseq):
        r = gen.seeded(seed, salt, i)
        kind = r.choice(['name', 'fd'])
        comp = r.choice(['none', 'none', 'gzip', 'xz'])
        suffix = '' if kind == 'fd' else {'none': '', 'gzip': '.gz', 'xz': '.xz'}[comp]
        lines = ['open %s %s @WD@/sq_@I@_0' % (kind, comp)]
        outs = [('@WD@/sq_@I@_0' + suffix, comp)]
        for k in range(r.randrange(1, 200)):
            x = r.random()
            if x < 0.03 and len(outs) < 4:
                lines.append('rot @WD@/sq_@I@_%d' % len(outs))
                outs.append(('@WD@/sq_@I@_%d' % len(outs) + suffix, comp))
                continue
            op = r.choice(OPS18)
            if op in OPS_INT:
                w = WIDTH[op]
                v = gen.bound_uint(r, w) if op[0] == 'u' else max(-2 ** (w - 1), min(2 ** (w - 1) - 1, gen.bound_int64(r)))
                lines.append('%s %d' % (op, v))
            elif op == 'bool':
                lines.append('bool %d' % r.randrange(2))
            elif op in ('arr', 'map'):
                lines.append('%s %d' % (op, gen.bound_uint(r, 64)))
            elif op in ('iarr', 'imap', 'brk'):
                lines.append(op)
            else:
                if r.random() < 0.5:
                    b = gen.rbytes(r, r.choice([0, 1, 5, 23, 24, 100, 255, 256, 300]))
                    lines.append('%s %s' % (op, b.hex() or '-'))
                else:
                    lines.append('%sn %d %d' % (op, r.choice([0, 1, 24, 700, B - 8, B, B + 1, 2 * B + 4, 3 * B + 856]), r.randrange(250)))
        lines.append('close')
        scripts.append(('seq-%d' % i, lines, outs))
    return scripts


def run_sequences(prop, seed, nseq, tag):
    query_bufsize()
    return run_scripts(prop, sequence_scripts(seed, nseq, prop + 'seq'), tag)


def query_bufsize():
    """the staging-buffer size of the build under test (so that a changed size is swept completely instead of alarming)"""
    global B
    drvd, _ = build.ensure('asan')
    wd = runner.workdir('c06q')
    try:
        sp, rp = os.path.join(wd, 's.txt'), os.path.join(wd, 'r.txt')
        with open(sp, 'w') as f:
            f.write('open name none %s/q\nclose\n' % wd)
        runner.run_tool(os.path.join(drvd, 'vdrv'), ['enc', sp, rp], timeout=120)
        m = re.search(r'open = ok (\d+)', open(rp).read() if os.path.exists(rp) else '')
        if m and 64 <= int(m.group(1)) <= (1 << 20):
            B = int(m.group(1))
    finally:
        runner.cleanup(wd)
    return B


def run(tier, seed):
    query_bufsize()
    scripts = sweep_scripts(tier, seed) + exhaustive_small(tier, seed) + string_scripts(tier, seed) + sequence_scripts(seed, 300 if tier == 'quick' else 5000)
    vs, obs = run_scripts(PROP, scripts, 'c06')
    pairs = obs.pop('pairs')
    per_op = {}
    for op, fill in pairs:
        per_op.setdefault(op, set()).add(fill)
    want = {'u8', 'u16', 'u32', 'u64', 'i8', 'i16', 'i32', 'i64', 'bool', 'arr', 'map', 'iarr', 'imap', 'brk', 'bs', 'bsp', 'tx', 'txp'}
    full = {op: len(per_op.get(op, ())) for op in sorted(want)}
    obs['distinct_op_fill_pairs'] = len(pairs)
    obs['fill_levels_seen_per_op(of %d)' % (B + 1)] = full
    obs['encoder_buffer_size_reported_by_the_build'] = B
    obs['exhaustive_8_16_bit_values'] = True
    inc = None
    short = [op for op in want if len(per_op.get(op, ())) < B + 1]
    if short:
        inc = 'fill levels not all observed through the hook for: %s' % ','.join(sorted(short))
    cov = dict(evaluations=obs['calls'], distinct_nontrivial=len(pairs),
               rule='one evaluation = one public encoder call whose return value and output bytes are compared with an independent reference encoder; '
                    'distinct non-trivial = distinct (operation, buffer fill level observed through the hook before the call) pairs; (op, fill) space 18 x (buffer size + 1) and all 8/16-bit values enumerated completely, '
                    'wider values / strings / call sequences sampled',
               samples=[{'script': s[1][:6]} for s in scripts[:1]] + [{'script': scripts[-1][1][:12]}], observed=obs, exhaustive=False)
    return dict(violations=vs, coverage=cov, inconclusive=inc)
