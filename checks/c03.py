"""C03 - reading untrusted bytes is memory-safe, bounded and fails only by exception (DESIGN 4/C03)."""
import concurrent.futures as cf
import glob
import json
import os
import re
import subprocess

from vlib import build, cbor, cdns_schema, gen, mutate, pipeline, runner
from vlib.findings import Violation
from .common import ExportRun

PROP, LEVEL = 'C03', 'exploration'
# every failure the drivers record was caught as `const std::exception&`; anything else escapes, terminates the driver and is reported
# as `terminate-*` by the crash triage - so the recorded exception classes need no white list (a library is free to add classes)
TOOLS = ['cdns-blocks', 'cdns-itemcount', 'cdns-items', 'cdns-preamble', 'cdns-merge']
DEC_OPS = ['peek', 'u', 'n', 'i', 'b', 'bs', 'tx', 'arr', 'map', 'brk', 'skip', 'arr_u']


def corpus(seed, n=24):
    cases = []
    for i in range(n):
        r = gen.seeded(seed, 'C03corpus', i)
        pre = gen.gen_preamble(r, rich=(i % 3 == 0), nbps=r.choice([1, 2]))
        for bp in pre['bps']:
            bp['tps'] = r.choice([1, 1000, 10 ** 6, 10 ** 9]); bp['max'] = r.choice([2, 5, 10000])
            bp['qrh'], bp['sigh'], bp['rrh'], bp['oth'] = gen.ALL_QRH, gen.ALL_SIGH, 3, 3
        pre['major'], pre['minor'] = 1, 0
        if i == 1:
            pre['bps'][0]['opcodes'] = []          # empty lists are valid and must render
        if i == 2:
            pre['bps'][-1]['rrtypes'] = []
        if i == 4:
            pre['bps'][0]['opcodes'], pre['bps'][0]['rrtypes'] = [], []
        cases.append(gen.gen_history(r, 'k%03d' % i, preamble=pre, nops=r.choice([4, 10, 30]), comp='none', kind='name', rotations=False, addbp=False,
                                     weights=dict(qr=50, mm=20, aec=15, dblock=6)))
    er = ExportRun(PROP, cases, 'c03corpus', need_lib_read=False)
    files = []
    try:
        for pc in er.per_case:
            if pc:
                for o in pc['outs']:
                    if o.data and o.id in pc['docs']:
                        files.append(o.data)
    finally:
        er.close()
    return files, er.violations


def resource_inputs(data):
    """valid files that are cheap for a linear implementation and expensive for one that is quadratic in the number of string chunks /
    in the number of table entries sharing a long prefix"""
    out = []
    doc = cdns_schema.parse(data)
    pre = doc.root.value[1]
    n = 500000
    pre.value.append((cbor.Node(cbor.UINT, 200), cbor.Node(cbor.TSTR, b'a' * n, 0, True, [(None, b'a')] * n)))
    pre.width = None
    out.append(('many_chunks', cbor.encode(doc.root)))
    doc = cdns_schema.parse(data)
    m = 100000
    names = cbor.Node(cbor.ARRAY, [cbor.Node(cbor.BSTR, b'p' * 64 + i.to_bytes(4, 'big') + b'q' * 28) for i in range(m)])
    blk = cbor.Node(cbor.MAP, [(cbor.Node(cbor.UINT, 0), cbor.Node(cbor.MAP, [])),
                               (cbor.Node(cbor.UINT, 2), cbor.Node(cbor.MAP, [(cbor.Node(cbor.UINT, 2), names)])),
                               (cbor.Node(cbor.UINT, 3), cbor.Node(cbor.ARRAY, [cbor.Node(cbor.MAP, [(cbor.Node(cbor.UINT, 7), cbor.Node(cbor.UINT, m - 1))])]))])
    doc.blocks_node.value.insert(0, blk)
    doc.blocks_node.width = None
    out.append(('long_common_prefix_table', cbor.encode(doc.root)))
    return out


def triage_key(c):
    return '%s:%s' % (PROP, c.key_tail())


def run(tier, seed):
    vs = []
    base, v0 = corpus(seed)
    vs += v0
    if not base:
        return dict(violations=vs, coverage=dict(evaluations=0, distinct_nontrivial=0, rule='', samples=[]), inconclusive='no valid corpus file could be produced')
    n_mut = 3000 if tier == 'quick' else 60000
    wd = runner.workdir('c03')
    kinds_seen, outcomes = {}, {}
    inputs = []
    try:
        jobs = []
        for i in range(n_mut):
            r = gen.seeded(seed, 'C03m', i)
            kind = mutate.KINDS[i % len(mutate.KINDS)] if i < 40 * len(mutate.KINDS) else None
            k, data = mutate.mutate(r, r.choice(base), kind)
            if r.random() < 0.15:
                k2, data = mutate.mutate(r, data, None)          # stack a second mutation
                k = k + '+' + k2
            kinds_seen[k.split('+')[0]] = kinds_seen.get(k.split('+')[0], 0) + 1
            p = os.path.join(wd, 'in_%05d.bin' % i)
            with open(p, 'wb') as f:
                f.write(data)
            inputs.append((k, p, len(data)))
            jobs.append({'id': 'm%05d' % i, 'path': p, 'stream': 'ifstream' if i % 2 else 'sstream', 'dump': 'none', 'render': True, 'tables': True})
        # resource envelopes: valid files whose cost must stay proportional to their size
        for rk, data in resource_inputs(base[0]):
            i = len(inputs)
            p = os.path.join(wd, 'in_%05d.bin' % i)
            with open(p, 'wb') as f:
                f.write(data)
            kinds_seen[rk] = kinds_seen.get(rk, 0) + 1
            inputs.append((rk, p, len(data)))
            jobs.append({'id': 'm%05d' % i, 'path': p, 'stream': 'ifstream', 'dump': 'none', 'render': False, 'tables': False})
        res, crashes, wd2 = runner.run_cases('asan', 'read', jobs, 'c03r', timeout=600)
        runner.cleanup(wd2)
        for c in crashes:
            k, p, ln = inputs[c.case_index]
            payload = {'mutation': k, 'input_hex': open(p, 'rb').read()[:3000].hex(), 'input_len': ln, 'report': c.excerpt}
            if c.kind == 'hang':
                vs.append(Violation(PROP, '%s:hang:reader' % PROP, 'reader did not terminate on a %d-byte input (%s)' % (ln, k), payload))
            else:
                vs.append(Violation(PROP, triage_key(c), 'reader on hostile input (%s, %d bytes): %s in %s' % (k, ln, c.cls, c.func), payload))
        for i, (k, p, ln) in enumerate(inputs):
            r = res.get(i)
            if r is None:
                continue
            for part in ('hdr', 'end', 'escaped'):
                x = r.get(part)
                if isinstance(x, dict):
                    outcomes[x.get('exc')] = outcomes.get(x.get('exc'), 0) + 1
                elif x in ('ok', 'eof') and part != 'hdr':
                    outcomes['success'] = outcomes.get('success', 0) + 1
            if not r.get('hook_ok', True):
                vs.append(Violation(PROP, '%s:hook:decoder-window' % PROP, 'decoder position left its buffer window on a hostile input (%s)' % k, {'mutation': k, 'input_hex': open(p, 'rb').read()[:3000].hex()}))
            if r.get('alloc_max', 0) > 2048 * ln + (1 << 20):
                vs.append(Violation(PROP, '%s:allocation-sized-by-input-field' % PROP, 'a single allocation of %d bytes for a %d-byte input (%s)' % (r['alloc_max'], ln, k), {'mutation': k, 'input_hex': open(p, 'rb').read()[:3000].hex()}))
            if r.get('cpu', 0) > 5.0 * max(1.0, ln / float(1 << 20)):
                vs.append(Violation(PROP, '%s:cpu-time:%s' % (PROP, k if k in ('many_chunks', 'long_common_prefix_table') else 'mutated'), '%.1f s CPU for a %d-byte input (%s); the envelope is 5 s per MiB (min. 5 s)' % (r['cpu'], ln, k), {'mutation': k, 'input_hex': open(p, 'rb').read()[:3000].hex()}))
        # raw decoder operations over the same bytes
        dcases = []
        for i in range(0, len(inputs), 3):
            r = gen.seeded(seed, 'C03d', i)
            dcases.append({'id': 'x%05d' % i, 'stream': 'ifstream', 'path': inputs[i][1], 'ops': [r.choice(DEC_OPS) for _ in range(30)]})
        dres, dcr, wd3 = runner.run_cases('asan', 'dec', dcases, 'c03d', pre_args_fn=lambda w: [w], timeout=600)
        runner.cleanup(wd3)
        for c in dcr:
            vs.append(Violation(PROP, triage_key(c), 'decoder operations on hostile bytes: %s in %s' % (c.cls, c.func), {'case': dcases[c.case_index], 'report': c.excerpt}))
        for i, dc in enumerate(dcases):
            r = dres.get(i)
            if r is None:
                continue
            if not r.get('hook', True):
                vs.append(Violation(PROP, '%s:hook:decoder-window' % PROP, 'decoder position left its window during raw operations', {'case': dc}))
            ln = os.path.getsize(dc['path'])
            if r.get('alloc_max', 0) > 2048 * ln + (1 << 20):
                vs.append(Violation(PROP, '%s:allocation-sized-by-input-field' % PROP, 'decoder: single allocation of %d bytes for a %d-byte input' % (r['alloc_max'], ln), {'case': dc}))
        # command-line tools
        _, libd = build.ensure('asan')
        n_tool = 400 if tier == 'quick' else 4000
        tool_runs = 0

        targeted = [j for j, (k, p, ln) in enumerate(inputs) if k.split('+')[0] in ('time_huge', 'field_boundary', 'tps_zero', 'uint_boundary')]

        huge_times = [j for j, (k, p, ln) in enumerate(inputs) if k.split('+')[0] == 'time_huge'][:150 if tier == 'quick' else 1500]

        def tool_job(i):
            r = gen.seeded(seed, 'C03t', i)
            tool = TOOLS[i % len(TOOLS)]
            # half of the runs on inputs with extreme times / indices / tick rates (what the tools re-encode or resolve)
            k, p, ln = inputs[r.choice(targeted)] if (targeted and i % 2) else inputs[r.randrange(len(inputs))]
            if i >= n_tool:
                # every input with extreme block times goes through cdns-merge once (it re-computes all time offsets when it writes)
                tool = 'cdns-merge'
                k, p, ln = inputs[huge_times[i - n_tool]]
            if tool == 'cdns-merge':
                k2, p2, _ = inputs[r.randrange(len(inputs))]
                outp = os.path.join(wd, 'merge_%d.out' % i)
                args = ['-o', outp, p, p2] if r.random() < 0.7 else ['-o', outp, p2, p, p]
            elif tool == 'cdns-itemcount':
                args = [x for x in ['-b', '-p'] if r.random() < 0.5] + [p]
            elif tool == 'cdns-preamble':
                args = (['-b'] if r.random() < 0.6 else []) + [p]
            elif tool == 'cdns-blocks':
                args = (['-n', str(r.choice([1, 2, 3, 10]))] if r.random() < 0.5 else []) + [p]
            elif tool == 'cdns-items':
                args = [x for x in ['-q', '-a', '-m'] if r.random() < 0.4] + (['-n', str(r.choice([1, 2, 3, 10]))] if r.random() < 0.4 else []) + [p]
            else:
                args = [p]
            rc, out, err, to = runner.run_limited(os.path.join(libd, tool), args, timeout=600, cpu=30, fsize=32 << 20)
            return tool, k, p, rc, err, to
        with cf.ThreadPoolExecutor(max_workers=runner.NCPU) as ex:
            for tool, k, p, rc, err, to in ex.map(tool_job, range(n_tool + len(huge_times))):
                tool_runs += 1
                if to:
                    vs.append(Violation(PROP, '%s:hang:%s' % (PROP, tool), '%s did not terminate' % tool, {'mutation': k, 'input_hex': open(p, 'rb').read()[:3000].hex()}))
                elif rc in (-24, -25):
                    vs.append(Violation(PROP, '%s:%s:%s' % (PROP, tool, 'cpu-limit' if rc == -24 else 'output-flood'), '%s on hostile input (%s) did not terminate normally: %s' % (tool, k, 'CPU limit of 30 s' if rc == -24 else 'more than 32 MiB of output'), {'mutation': k, 'input_hex': open(p, 'rb').read()[:3000].hex()}))
                elif rc not in (0, 1):
                    tr = runner.triage(err, rc) or ('exit-%s' % rc, 'unknown-frame', err[-1500:])
                    vs.append(Violation(PROP, '%s:%s:%s:%s' % (PROP, tool, tr[0], tr[1]), '%s on hostile input (%s): %s in %s' % (tool, k, tr[0], tr[1]), {'mutation': k, 'input_hex': open(p, 'rb').read()[:3000].hex(), 'report': tr[2]}))
        # valgrind memcheck on the plain flavour: uninitialised reads that red zones cannot see
        mem_runs = 0
        drvp, _ = build.ensure('plain')
        nmem = 40 if tier == 'quick' else 500
        step = max(1, len(inputs) // nmem)
        mjobs = [{'id': 'v%05d' % i, 'path': inputs[i][1], 'stream': 'sstream', 'dump': 'none', 'render': True, 'tables': True} for i in range(0, len(inputs), step) if inputs[i][2] < 20000][:nmem]
        shards = [mjobs[s::runner.NCPU] for s in range(runner.NCPU)]

        def vg(si):
            sh = shards[si]
            if not sh:
                return 0, None
            jp, rp = os.path.join(wd, 'vg_%d.jsonl' % si), os.path.join(wd, 'vgr_%d.jsonl' % si)
            with open(jp, 'w') as f:
                for j in sh:
                    f.write(json.dumps(j) + '\n')
            rc, out, err, to = runner.run_tool('/usr/bin/valgrind', ['-q', '--error-exitcode=79', '--errors-for-leak-kinds=none', '--leak-check=no', '--num-callers=12',
                                               os.path.join(drvp, 'vdrv'), 'read', jp, rp], timeout=900)
            return len(sh), (rc, err, to, sh)
        with cf.ThreadPoolExecutor(max_workers=runner.NCPU) as ex:
            for n, info in ex.map(vg, range(len(shards))):
                mem_runs += n
                if info is None:
                    continue
                rc, err, to, sh = info
                if to:
                    continue
                if rc != 0 or 'Conditional jump' in err or 'uninitialised' in err or 'Invalid read' in err or 'Invalid write' in err:
                    m = re.search(r'(Conditional jump or move depends on uninitialised value|Use of uninitialised value|Invalid read|Invalid write|Syscall param [^\n]*uninitialised)', err)
                    cls = 'memcheck-' + (m.group(1).split('(')[0].strip().replace(' ', '-').lower()[:40] if m else 'error')
                    fn = None
                    for line in err.splitlines():
                        mm = re.search(r'(?:at|by) 0x[0-9A-F]+: (.+?) \((\w+\.(?:cpp|h)):\d+\)', line)
                        if mm and mm.group(2) in ('interface.cpp', 'block.cpp', 'cdns_decoder.cpp', 'cdns.cpp', 'timestamp.cpp', 'file_preamble.cpp', 'block.h', 'block_table.h', 'hash.h'):
                            fn = re.sub(r'\(.*', '', mm.group(1))
                            break
                    vs.append(Violation(PROP, '%s:%s:%s' % (PROP, cls, fn or 'unknown-frame'), 'valgrind memcheck on the un-sanitized build: %s in %s' % (cls, fn), {'inputs': [j['path'] for j in sh][:5], 'report': err[:3000]}))
        obs = dict(corpus_files=len(base), mutated_inputs=len(inputs), mutation_kinds=kinds_seen, reader_outcomes=outcomes, decoder_op_cases=len(dcases), tool_runs=tool_runs,
                   memcheck_inputs=mem_runs, crashes=len(crashes) + len(dcr))
        fuzz_execs = 0
        if tier != 'quick':
            fv, fuzz_execs = fuzz(seed, base, wd)
            vs += fv
            obs['libfuzzer_executions'] = fuzz_execs
        cov = dict(evaluations=len(inputs) + len(dcases) + tool_runs + mem_runs + fuzz_execs, distinct_nontrivial=len({(k, ln) for k, p, ln in inputs}),
                   rule='structure-aware mutations of valid exporter outputs (%d mutation kinds: length fields up to 2^64-1, boundary integers, wrong majors, nesting to 200000, truncation, malformed names/addresses, ...) '
                        'through CdnsReader + every accessor and renderer, raw decoder operations, the five CLI tools (ASan+UBSan build) and valgrind memcheck (plain build); '
                        'distinct = distinct (mutation kind, input length); oracle: no sanitizer report / signal / exception that is not derived from std::exception (it would terminate the driver), single allocation <= 2048*len+1MiB, CPU <= 5 s per MiB of input (min. 5 s), incl. two valid files that are expensive only for quadratic code (500000 one-byte string chunks; 100000 table entries sharing a 64-byte prefix)' % len(mutate.KINDS),
                   samples=[{'mutation': inputs[i][0], 'len': inputs[i][2], 'head_hex': open(inputs[i][1], 'rb').read()[:48].hex()} for i in (0, 1, 2)], observed=obs)
        return dict(violations=vs, coverage=cov)
    finally:
        runner.cleanup(wd)


def fuzz(seed, base, wd):
    """coverage-guided libFuzzer over reader + renderers; artefacts are triaged from the fuzzer's own report"""
    vs = []
    drvf, _ = build.ensure('fuzz')
    exe = os.path.join(drvf, 'reader')
    corp = os.path.join(wd, 'corpus')
    os.makedirs(corp, exist_ok=True)
    for i, d in enumerate(base):
        with open(os.path.join(corp, 'seed_%d' % i), 'wb') as f:
            f.write(d)
    runs = 200000
    total = 0

    def job(j):
        art = os.path.join(wd, 'art_%d_' % j)
        cd = os.path.join(wd, 'corp_%d' % j)
        os.makedirs(cd, exist_ok=True)
        rc, out, err, to = runner.run_tool(exe, ['-runs=%d' % runs, '-seed=%d' % (seed * 100 + j + 1), '-max_len=4096', '-rss_limit_mb=3000', '-timeout=20', '-artifact_prefix=' + art,
                                                 '-print_final_stats=1', cd, corp], timeout=3000, env={'ASAN_OPTIONS': 'exitcode=77:detect_leaks=0:allocator_may_return_null=0:max_allocation_size_mb=1024:quarantine_size_mb=8:handle_abort=1'})
        return j, rc, err, to
    with cf.ThreadPoolExecutor(max_workers=runner.NCPU) as ex:
        for j, rc, err, to in ex.map(job, range(runner.NCPU)):
            m = re.search(r'stat::number_of_executed_units:\s*(\d+)', err)
            total += int(m.group(1)) if m else 0
            if rc != 0 and not to:
                tr = runner.triage(err, rc) or ('libfuzzer-exit-%s' % rc, 'unknown-frame', err[-2000:])
                if 'libFuzzer: out-of-memory' in err or 'allocation-size-too-big' in err or 'out-of-memory' in err:
                    tr = ('asan-allocation-size-too-big' if 'allocation-size-too-big' in err else 'oom', tr[1], tr[2])
                if 'libFuzzer: timeout' in err:
                    tr = ('timeout', tr[1], tr[2])
                arts = glob.glob(os.path.join(wd, 'art_%d_*' % j))
                hx = open(arts[0], 'rb').read()[:3000].hex() if arts else None
                vs.append(Violation(PROP, '%s:%s:%s' % (PROP, tr[0], tr[1]), 'libFuzzer found: %s in %s' % (tr[0], tr[1]), {'input_hex': hx, 'report': tr[2]}))
    return vs, total
