"""C15 - a named output becomes visible under its final name only when complete (DESIGN 4/C15)."""
import concurrent.futures as cf
import os

from vlib import build, cbor, cdns_schema, pipeline, runner
from vlib.findings import Violation
from . import sysutil

PROP, LEVEL = 'C15', 'fault_enumeration'


def run(tier, seed):
    vs = []
    drvd, _ = build.ensure('asan')
    exe = os.path.join(drvd, 'vdrv')
    base = runner.workdir('c15')
    scen = sysutil.scenario_cases(seed, tier)
    points = 0
    killed = 0
    fault_runs = 0
    rename_fault_points = 0
    per_scen = {}
    kinds_at_kill = {}
    try:
        jobs = []
        dry = {}
        for si, (name, case, pre_files) in enumerate(scen):
            d = sysutil.prepare_dir(base, 'dry%d' % si, case, pre_files)
            rc, res, sl, err = sysutil.sysrun(exe, case, d, {'mode': 'count'})
            if rc != 0 or res is None:
                tr = runner.triage(err, rc) or ('exit-%s' % rc, 'unknown-frame', err[-1500:])
                vs.append(Violation(PROP, '%s:dry-run:%s:%s' % (PROP, tr[0], tr[1]), 'scenario %s failed without any crash injected' % name, {'case': case, 'report': tr[2]}))
                continue
            comp = case['open']['comp']
            # all data must go to <name><suffix>.part
            for e in sl:
                if e['call'] in ('write', 'writev') and not e['path'].endswith('.part'):
                    vs.append(Violation(PROP, '%s:write-not-to-part:%s' % (PROP, comp), 'scenario %s: %s of %d bytes went to %s, not to a .part file' % (name, e['call'], e['req'], os.path.basename(e['path'])), {'case': case}))
                    break
            # complete versions each final name may legitimately hold
            allowed = {}
            for oid, data in pre_files.items():
                allowed.setdefault('%s_%s%s' % (case['id'], oid, sysutil.suffix(comp)), set()).add(data)
            finals = sysutil.final_files(d, case)
            # the dry run's closed outputs, validated as complete documents (C02/C14 oracles)
            for e in res['log']:
                if 'closed' in e and e['closed'].get('exists'):
                    fn = os.path.basename(e['closed']['path'])
            for fn, data in finals.items():
                if fn.endswith('.part'):
                    vs.append(Violation(PROP, '%s:part-left-after-normal-end:%s' % (PROP, comp), 'scenario %s: %s left behind after a normal run' % (name, fn), {'case': case}))
                    continue
                allowed.setdefault(fn, set()).add(data)
                try:
                    plain = pipeline.decompress(comp, data)
                    if plain:
                        cdns_schema.parse(plain)
                except (pipeline.StreamError, cbor.CborError, cdns_schema.SchemaError) as x:
                    if data not in [v for vv in [pre_files.values()] for v in vv]:
                        vs.append(Violation(PROP, '%s:dry-run-output-invalid:%s' % (PROP, comp), 'scenario %s: complete run leaves an invalid file %s: %s' % (name, fn, x), {'case': case}))
            # intermediate complete versions (a name that is written twice): taken from a second dry run that stops after each rename
            n = len(sl)
            renames = [e['n'] for e in sl if e['call'] == 'rename']
            dry[si] = (allowed, n, renames)
            per_scen[name] = n
            for k in range(1, n + 1):
                jobs.append((si, k))
        def crash_job(job):
            si, k = job
            name, case, pre_files = scen[si]
            d = sysutil.prepare_dir(base, 'k%d_%d' % (si, k), case, pre_files)
            rc, res, sl, err = sysutil.sysrun(exe, case, d, {'mode': 'crash', 'k': k})
            files = sysutil.final_files(d, case)
            last = sl[-1] if sl else {}
            return si, k, rc, files, last, err
        results = []
        with cf.ThreadPoolExecutor(max_workers=runner.NCPU) as ex:
            results = list(ex.map(crash_job, jobs))
        for si, k, rc, files, last, err in results:
            name, case, pre_files = scen[si]
            comp = case['open']['comp']
            allowed, n, renames = dry[si]
            points += 1
            if rc != 99 or not last.get('crash'):
                tr = runner.triage(err, rc) if rc not in (99, None) else None
                vs.append(Violation(PROP, '%s:crash-point-not-reached:%s' % (PROP, tr[0] if tr else 'rc-%s' % rc), 'scenario %s: the process did not die at output call %d of %d (rc=%s)' % (name, k, n, rc), {'case': case, 'k': k}))
                continue
            killed += 1
            kinds_at_kill[last['call']] = kinds_at_kill.get(last['call'], 0) + 1
            for fn, data in files.items():
                if fn.endswith('.part'):
                    continue
                ok = data in allowed.get(fn, set())
                if not ok:
                    # a name written twice: an earlier complete version is fine as well -> must itself be a complete valid document
                    try:
                        plain = pipeline.decompress(comp, data)
                        if plain:
                            cdns_schema.parse(plain)
                            ok = True
                        elif comp != 'none':
                            ok = True          # complete compressed stream of an output without blocks
                        elif len(data) == 0 and k > 1:
                            ok = False
                    except (pipeline.StreamError, cbor.CborError, cdns_schema.SchemaError):
                        ok = False
                if not ok:
                    vs.append(Violation(PROP, '%s:partial-file-under-final-name:%s:before-%s' % (PROP, comp, last['call']),
                                        'scenario %s, process killed before output call %d/%d (%s): %s exists under its final name with %d bytes, which is neither the file from before nor a complete output' % (name, k, n, last['call'], fn, len(data)),
                                        {'case': case, 'k': k, 'file': fn, 'head_hex': data[:64].hex()}))
        # ---- part 2: the same rule under write faults: an output that lost bytes must never show up under its final name
        import copy
        fjobs = []
        for si, (name, case, pre_files) in enumerate(scen):
            if si not in dry or 'onto' in name:
                continue
            c = copy.deepcopy(case)
            c['stop_on_exc'] = True
            c['recover'] = [{'op': 'rotate', 'id': 'rec', 'export': False, 'retry': True}, {'op': 'wb'}]
            d = sysutil.prepare_dir(base, 'fdry%d' % si, c, pre_files)
            rc, res, sl, err = sysutil.sysrun(exe, c, d, {'mode': 'count'})
            if rc != 0:
                continue
            for e in sl:
                if e['call'] in ('write', 'writev') and e['req'] > 0 and '_rec' not in os.path.basename(e['path']):
                    fjobs.append((si, c, e['w']))

        def fault_job(job):
            si, c, k = job
            name, case, pre_files = scen[si]
            d = sysutil.prepare_dir(base, 'fl%d_%d' % (si, k), c, pre_files)
            rc, res, sl, err = sysutil.sysrun(exe, c, d, {'mode': 'fault', 'k': k, 'err': 'ENOSPC' if k % 2 else 'EIO', 'persist': bool(k % 3 == 0)})
            return si, k, rc, sysutil.final_files(d, c), [e for e in sl if e.get('injected')], err
        with cf.ThreadPoolExecutor(max_workers=runner.NCPU) as ex:
            fres = list(ex.map(fault_job, fjobs))
        for si, k, rc, files, inj, err in fres:
            name, case, pre_files = scen[si]
            comp = case['open']['comp']
            if rc != 0 or not inj:
                continue
            fault_runs += 1
            hit = os.path.basename(inj[0]['path'])
            hit = hit[:-5] if hit.endswith('.part') else hit
            for fn, data in files.items():
                if fn.endswith('.part') or data in dry[si][0].get(fn, set()):
                    continue
                try:
                    plain = pipeline.decompress(comp, data)
                    if plain:
                        cdns_schema.parse(plain)
                    continue
                except (pipeline.StreamError, cbor.CborError, cdns_schema.SchemaError) as x:
                    vs.append(Violation(PROP, '%s:incomplete-file-under-final-name-after-write-fault:%s' % (PROP, comp),
                                        'scenario %s: write %d to %s failed, yet %s was given its final name although it is not a complete output (%s)' % (name, k, hit, fn, x), {'case': case, 'k': k, 'file': fn}))
        # ---- part 3: the publishing rename itself fails (EXDEV: name bind-mounted from another file system; EBUSY): nothing may be
        #      written to the final name instead - not in a complete run, not when the process dies at any later point
        rjobs, rdry = [], {}
        for si, (name, case, pre_files) in enumerate(scen):
            if si not in dry or name.split('/')[1] not in ('rot3', 'onto_existing', 'single') or (tier == 'quick' and name.split('/')[2] != '0'):
                continue
            comp = case['open']['comp']
            rerr = 'EXDEV' if si % 2 else 'EBUSY'
            d = sysutil.prepare_dir(base, 'rdry%d' % si, case, pre_files)
            rc, res, sl, err = sysutil.sysrun(exe, case, d, {'mode': 'count', 'rename_err': rerr})
            if rc != 0 or res is None:
                tr = runner.triage(err, rc) or ('exit-%s' % rc, 'unknown-frame', err[-1500:])
                vs.append(Violation(PROP, '%s:rename-failure:%s:%s' % (PROP, tr[0], tr[1]), 'scenario %s died when rename() failed with %s' % (name, rerr), {'case': case, 'report': tr[2]}))
                continue
            for e in sl:
                if e['call'] in ('write', 'writev') and not e['path'].endswith('.part'):
                    vs.append(Violation(PROP, '%s:write-not-to-part:after-failed-rename:%s' % (PROP, comp), 'scenario %s, rename() failing with %s: %s of %d bytes went to %s, not to a .part file' % (name, rerr, e['call'], e['req'], os.path.basename(e['path'])), {'case': case}))
                    break
            rdry[si] = rerr
            for k in range(1, len(sl) + 1):
                rjobs.append((si, k, rerr))

        def rcrash_job(job):
            si, k, rerr = job
            name, case, pre_files = scen[si]
            d = sysutil.prepare_dir(base, 'r%d_%d' % (si, k), case, pre_files)
            rc, res, sl, err = sysutil.sysrun(exe, case, d, {'mode': 'crash', 'k': k, 'rename_err': rerr})
            return si, k, rc, sysutil.final_files(d, case), (sl[-1] if sl else {})
        with cf.ThreadPoolExecutor(max_workers=runner.NCPU) as ex:
            rres = list(ex.map(rcrash_job, rjobs))
        for si, k, rc, files, last in rres:
            name, case, pre_files = scen[si]
            comp = case['open']['comp']
            if rc != 99 or not last.get('crash'):
                continue            # the call sequence may legitimately be shorter than in the dry run
            rename_fault_points += 1
            before = set(pre_files.values())
            for fn, data in files.items():
                if fn.endswith('.part') or data in before:
                    continue
                ok = False
                try:
                    plain = pipeline.decompress(comp, data)
                    if plain:
                        cdns_schema.parse(plain)
                    ok = bool(plain) or comp != 'none'
                except (pipeline.StreamError, cbor.CborError, cdns_schema.SchemaError):
                    ok = False
                if not ok:
                    vs.append(Violation(PROP, '%s:partial-file-under-final-name:after-failed-rename:%s' % (PROP, comp),
                                        'scenario %s, rename() failing with %s, process killed before output call %d: %s exists under its final name with %d bytes, neither the file from before nor a complete output' % (name, rdry[si], k, fn, len(data)),
                                        {'case': case, 'k': k, 'file': fn}))
    finally:
        runner.cleanup(base)
    obs = dict(scenarios=len(scen), crash_points_with_failing_rename=rename_fault_points, crash_points_enumerated=points, write_fault_runs_checked_for_partial_final_files=fault_runs, processes_killed_at_their_point=killed, output_calls_per_scenario=per_scen, call_kind_at_kill=kinds_at_kill)
    cov = dict(evaluations=points, distinct_nontrivial=killed,
               rule='for every scenario ({plain,gzip,xz} x {single output, 3 rotations, rotation onto existing names, destruction with/without buffered data}) a dry run counts the output-related calls '
                    '(write, writev, rename on the output files; interposed in the driver executable) and then one process per k in 1..N is killed immediately before its k-th call; non-trivial = the process really died at that call; '
                    'oracle: every file under a final name is byte-identical to the one from before the run or is a complete valid output; all writes go to *.part',
               samples=[{'scenario': scen[0][0], 'ops': [o['op'] for o in scen[0][1]['ops']]}, {'scenario': scen[5][0], 'ops': [o['op'] for o in scen[5][1]['ops']]}], observed=obs, exhaustive=True)
    inc = None if killed >= 0.9 * max(1, points) else 'only %d of %d crash points were reached' % (killed, points)
    return dict(violations=vs, coverage=cov, inconclusive=inc,
                assumptions=['crash = process death (no power loss: the library does not fsync and the property does not claim durability)'])
