"""C13 - rotation yields self-contained files and loses, repeats or reorders nothing (DESIGN 4/C13)."""
from vlib import gen, pipeline
from .common import ExportRun, sample_of

PROP, LEVEL = 'C13', 'exploration'


def make_cases(tier, seed):
    n = 400 if tier == 'quick' else 6000
    cases = []
    for i in range(n):
        r = gen.seeded(seed, 'C13', i)
        kw = dict(direct=False, weights=dict(rotate=r.choice([10, 18, 30]), addbp=6, setactive=8, edit=2), nops=r.choice([8, 25, 60]))
        if i % 5 == 0:
            kw['weights'].update(qr=5, aec=2, mm=2)       # consecutive rotations with (almost) nothing written
        if i % 7 == 0:
            kw['big'] = True
        cases.append(gen.gen_history(r, 'c%05d' % i, **kw))
    return cases


def run(tier, seed):
    cases = make_cases(tier, seed)
    er = ExportRun(PROP, cases, 'c13', need_lib_read=True)
    try:
        vs = er.violations
        empty_outputs = carried = consecutive = 0
        for pc in er.per_case:
            if pc is None:
                continue
            c = pc['case']
            v2, _ = pipeline.judge_wellformed(PROP, c, pc['outs'], pc['exp_out'])
            vs += v2
            vs += pipeline.judge_rotation(PROP, c, pc['res'], pc['outs'], pc['exp_out'], pc['docs'])
            vs += pipeline.judge_roundtrip(PROP, c, pc['outs'], pc['exp_out'], pc['docs'], er.dumps)
            empty_outputs += sum(1 for o in pc['exp_out'] if not o['blocks'])
            prev = None
            for op in c['ops']:
                if op['op'] == 'rotate' and prev == 'rotate':
                    consecutive += 1
                prev = op['op']
            # records buffered at a non-exporting rotation: model counters tell
        obs = dict(er.obs)
        obs.update(outputs_without_blocks=empty_outputs, consecutive_rotations=consecutive)
        nt = er.nontrivial(lambda pc: sum(1 for o in pc['case']['ops'] if o['op'] == 'rotate') >= 1 and len(pc['docs']) >= 1)
        cov = dict(evaluations=len(cases), distinct_nontrivial=nt,
                   rule='exporter histories with rotate_output(name|fd, export in {true,false}), consecutive rotations, add/set block parameters, all compressions; '
                        'non-trivial = >= 1 rotation and >= 1 output holding blocks; oracle: each closed output valid by itself (strict parser + index closure incl. block-parameter index), '
                        'snapshot at rotation == final bytes, records over outputs in rotation order == model stream (independent interpreter and CdnsReader)',
                   samples=[sample_of(c) for c in cases[:2]], observed=obs)
        return dict(violations=vs, coverage=cov,
                    assumptions=['rotations stay within the output kind the exporter was constructed with (cross-kind rotation is undocumented)'])
    finally:
        er.close()
