"""C13 - rotation yields self-contained files and loses, repeats or reorders nothing (DESIGN 4/C13)."""
from vlib import gen, pipeline
from .common import ExportRun, sample_of

PROP, LEVEL = 'C13', 'exploration'


def make_cases(tier, seed):
    n = 900 if tier == 'quick' else 7000
    cases = []
    for i in range(n):
        r = gen.seeded(seed, 'C13', i)
        kw = dict(direct=False, weights=dict(rotate=r.choice([10, 18, 30]), addbp=6, setactive=8, edit=2, rotate_bad=3), nops=r.choice([8, 25, 60]))
        if i % 5 == 0:
            kw['weights'].update(qr=5, aec=2, mm=2)       # consecutive rotations with (almost) nothing written
        if i % 7 == 0:
            kw['big'] = True
        cases.append(gen.gen_history(r, 'c%05d' % i, **kw))
    return cases


def steered_cases(tier, seed):
    """histories padded until the closing break is written with the staging buffer exactly full / one byte short
    (fill level observed through the encoder hook); the break is written by rotate_output or by destruction"""
    n = 18 if tier == 'quick' else 120
    templ = []
    for i in range(n):
        r = gen.seeded(seed, 'C13s', i)
        target = [2048, 2047, 2048, 2046][i % 4]
        how = 'rotate' if i % 3 else 'destroy'
        pre = gen.gen_preamble(r, nbps=1, maxi=10000, hints=(gen.ALL_QRH, gen.ALL_SIGH, 3, 3), tps=1000)
        pre['bps'][0].pop('cp', None)
        comp = ['none', 'gzip', 'xz'][i % 3]
        kind = ['fd', 'name'][(i // 3) % 2]
        how = 'rotate' if (i // 6) % 3 != 2 else 'destroy'
        P = gen.Pools(r)
        recs = [{'op': 'qr', 'r': gen.gen_qr(r, P, 1000, 10 ** 9, 'full')} for _ in range(r.choice([1, 3, 9]))]
        templ.append(dict(i=i, target=target, how=how, pre=pre, comp=comp, kind=kind, recs=recs, pad=r.randrange(0, 64), done=False))

    def build(t):
        ops = [{'op': 'qr', 'r': {'tid': 1, 'asn': '61' * t['pad']}}] + t['recs'] + [{'op': 'wb'}]
        if t['how'] == 'rotate':
            ops += [{'op': 'rotate', 'id': 'o1', 'export': False}, {'op': 'qr', 'r': {'tid': 2}}, {'op': 'wb'}]
        return {'id': 's%03d' % t['i'], 'preamble': t['pre'], 'open': {'id': 'o0', 'kind': t['kind'], 'comp': t['comp']}, 'ops': ops}
    for it in range(8):
        todo = [t for t in templ if not t['done']]
        if not todo:
            break
        cs = [build(t) for t in todo]
        res, crashes, wd = pipeline.run_histories(cs, 'c13s')
        from vlib import runner
        runner.cleanup(wd)
        for j, t in enumerate(todo):
            r = res.get(j)
            if r is None:
                t['done'] = True
                continue
            ent = [e for e in r['log'] if e['op'] == t['how']]
            fill = ent[0].get('fill') if ent else None
            if fill is None or fill == t['target']:
                t['done'] = True
                t['hit'] = fill == t['target']
            else:
                t['pad'] = t['pad'] + (t['target'] - fill) % 2048
                if t['pad'] > 6000:
                    t['pad'] %= 2048
    return [build(t) for t in templ], sum(1 for t in templ if t.get('hit'))


def faulted_rotations(tier, seed, prop=None, names=('rot3', 'empty_rotation'), tag='c13f'):
    """one write to some output fails (once); every OTHER output of the history - in particular those opened by later
    rotations - must still be a complete, self-contained file (or empty)"""
    import concurrent.futures as cf
    import copy
    import os
    from vlib import build, cbor, cdns_schema, runner
    from vlib.findings import Violation
    from . import sysutil, c16
    PROP = prop or globals()['PROP']
    vs = []
    drvd, _ = build.ensure('asan')
    exe = os.path.join(drvd, 'vdrv')
    base = runner.workdir(tag)
    runs = 0
    try:
        scen = []
        for name, case, pre in sysutil.scenario_cases(seed, tier):
            if not any(n in name for n in names):
                continue
            for kind in ('name', 'fd'):
                c = copy.deepcopy(case)
                c['open']['kind'] = kind
                ops = []
                for op in c['ops']:
                    if op['op'] == 'rotate':
                        # exporting rotations are split into write_block() + rotate_output(.., false): a rotation that throws can then
                        # only have failed while closing the old output, after which the library has switched to the new one
                        # (the driver has to know which output is current to label its snapshots)
                        if op['export']:
                            ops.append({'op': 'wb'})
                        op = dict(op, export=False, adopt_on_fail=True)
                    ops.append(op)
                c['ops'] = ops
                scen.append((name + '/' + kind, c))
        jobs = []
        for si, (name, c) in enumerate(scen):
            d = sysutil.prepare_dir(base, 'dry%d' % si, c, {})
            rc, res, sl, err = sysutil.sysrun(exe, c, d, {'mode': 'count'})
            if rc != 0:
                continue
            ws = [e for e in sl if e['call'] in ('write', 'writev') and e['req'] > 0]
            step = 1 if tier != 'quick' else 2
            for e in ws[::step]:
                jobs.append((si, e['w']))

        def job(j):
            si, k = j
            name, c = scen[si]
            d = sysutil.prepare_dir(base, 'f%d_%d' % (si, k), c, {})
            rc, res, sl, err = sysutil.sysrun(exe, c, d, {'mode': 'fault', 'k': k, 'err': 'ENOSPC', 'persist': False})
            return si, k, rc, res, [e for e in sl if e.get('injected')], sysutil.final_files(d, c), err
        with cf.ThreadPoolExecutor(max_workers=runner.NCPU) as ex:
            results = list(ex.map(job, jobs))
        for si, k, rc, res, inj, files, err in results:
            name, c = scen[si]
            comp = c['open']['comp']
            if rc != 0:
                tr = runner.triage(err, rc) or ('exit-%s' % rc, 'unknown-frame', err[-1500:])
                vs.append(Violation(PROP, '%s:faulted-rotation:%s:%s' % (PROP, tr[0], tr[1]), 'scenario %s with one failing write: process died' % name, {'case': c, 'k': k, 'report': tr[2]}))
                continue
            if not inj:
                continue
            runs += 1
            X = c16.out_id(inj[0]['path'], c['id'])
            for fn, data in files.items():
                if fn.endswith('.part') or c16.out_id(fn, c['id']) == X:
                    continue
                try:
                    plain = pipeline.decompress(comp, data)
                    if plain:
                        cdns_schema.parse(plain)
                except (pipeline.StreamError, cbor.CborError, cdns_schema.SchemaError) as x:
                    vs.append(Violation(PROP, '%s:other-output-damaged-by-a-failed-write:%s:%s' % (PROP, c['open']['kind'], comp),
                                        'scenario %s: write %d to output %s failed; output %s (not the failed one) is not a complete file by itself: %s' % (name, k, X, c16.out_id(fn, c['id']), x), {'case': c, 'k': k}))
                    break
    finally:
        runner.cleanup(base)
    return vs, runs


def run(tier, seed):
    cases = make_cases(tier, seed)
    steered, steered_hits = steered_cases(tier, seed)
    cases += steered
    fvs, fruns = faulted_rotations(tier, seed)
    er = ExportRun(PROP, cases, 'c13', need_lib_read=True)
    try:
        vs = er.violations + fvs
        empty_outputs = carried = consecutive = 0
        for pc in er.per_case:
            if pc is None:
                continue
            c = pc['case']
            v2, _ = pipeline.judge_wellformed(PROP, c, pc['outs'], pc['exp_out'])
            vs += v2
            vs += pipeline.judge_rotation(PROP, c, pc['res'], pc['outs'], pc['exp_out'], pc['docs'])
            vs += pipeline.judge_roundtrip(PROP, c, pc['outs'], pc['exp_out'], pc['docs'], er.dumps)
            empty_outputs += sum(1 for o in pc['exp_out'] if not o['blocks'])
            prev = None
            for op in c['ops']:
                if op['op'] == 'rotate' and prev == 'rotate':
                    consecutive += 1
                prev = op['op']
            # records buffered at a non-exporting rotation: model counters tell
        obs = dict(er.obs)
        obs.update(outputs_without_blocks=empty_outputs, consecutive_rotations=consecutive, closing_break_written_at_steered_buffer_fill=steered_hits, histories_with_one_failing_write=fruns)
        nt = er.nontrivial(lambda pc: sum(1 for o in pc['case']['ops'] if o['op'] == 'rotate') >= 1 and len(pc['docs']) >= 1)
        cov = dict(evaluations=len(cases), distinct_nontrivial=nt,
                   rule='exporter histories with rotate_output(name|fd, export in {true,false}), consecutive rotations, add/set block parameters, all compressions; '
                        'non-trivial = >= 1 rotation and >= 1 output holding blocks; oracle: each closed output valid by itself (strict parser + index closure incl. block-parameter index), '
                        'snapshot at rotation == final bytes, records over outputs in rotation order == model stream (independent interpreter and CdnsReader)',
                   samples=[sample_of(c) for c in cases[:2]], observed=obs)
        return dict(violations=vs, coverage=cov,
                    assumptions=['rotations stay within the output kind the exporter was constructed with (cross-kind rotation is undocumented)'])
    finally:
        er.close()
