"""C19 - blocks have value semantics: a copy is complete and independent of its source (DESIGN 4/C19)."""
import json
import os

from vlib import cbor, cdns_schema, gen, pipeline, runner, tablemodel
from vlib.findings import Violation
from .common import ExportRun

PROP, LEVEL = 'C19', 'exploration'
HOWS = ['cctor', 'mctor', 'cassign', 'massign']
FATES = ['keep', 'mutate', 'clear', 'destroy']


def content_ops(r, vg, P, slot, n, tps=1000):
    ops = []
    for _ in range(n):
        x = r.random()
        if x < 0.6:
            t = r.choice(tablemodel.TABLES)
            ops.append({'o': 'add', 'b': slot, 't': t, 'v': vg.value(t)})
        elif x < 0.8:
            ops.append({'o': 'rec', 'b': slot, 'k': 'qr', 'r': gen.gen_qr(r, P, tps, 10 ** 9)})
            if r.random() < 0.35:
                ops[-1]['st'] = gen.gen_stats(r)
        elif x < 0.9:
            ops.append({'o': 'rec', 'b': slot, 'k': 'aec', 'r': gen.gen_aec(r, P)})
        else:
            ops.append({'o': 'rec', 'b': slot, 'k': 'mm', 'r': gen.gen_mm(r, P, tps, 10 ** 9)})
    return ops


def retarget(ops, slot):
    return [dict(o, b=slot) for o in ops]


def make_cases(tier, seed, files):
    n = 1200 if tier == 'quick' else 8000
    cases = []
    for i in range(n):
        r = gen.seeded(seed, 'C19', i)
        vg = tablemodel.ValueGen(r)
        P = gen.Pools(r)
        how = HOWS[i % 4]
        fate = FATES[(i // 4) % 4]
        variant = ['block', 'block', 'readblock', 'fromfile'][(i // 16) % 4] if files else ['block', 'readblock'][(i // 16) % 2]
        ops, pairs, solo = [], [], []          # pairs: (index of op on the copy, index of op on the fresh twin)
        # parameters that differ from the defaults in members used afterwards (tick rate, block size, hints)
        tps = r.choice([1, 1000, 10 ** 6, 10 ** 9])
        bp = gen.gen_bp(r, tps=tps, maxi=r.choice([1, 3, 10000]), hints=(gen.ALL_QRH, gen.ALL_SIGH, 3, 3) if i % 3 else None)
        bp.pop('cp', None)
        if variant == 'fromfile':
            f, nb = r.choice(files)
            k = r.randrange(nb)
            ops.append({'o': 'fromfile', 'b': 0, 'path': f, 'n': k, 'how': r.choice(['ctor', 'assign'])})
            ops.append({'o': 'fromfile', 'b': 2, 'path': f, 'n': k, 'how': 'ctor'})
            lineage = []
        else:
            rd = variant == 'readblock'
            ops.append({'o': 'new', 'b': 0, 'bp': bp, 'read': rd})
            lineage = content_ops(r, vg, P, 0, r.choice([0, 3, 15, 60]), tps)
            ops += lineage
            ops.append({'o': 'new', 'b': 2, 'bp': bp, 'read': rd})
            ops += retarget(lineage, 2)
        if how in ('cassign', 'massign') and r.random() < 0.6:
            # assignment over a destination that already holds other content
            ops.append({'o': 'new', 'b': 1, 'bp': bp, 'read': variant != 'block'})
            ops += content_ops(r, vg, P, 1, r.choice([1, 5, 20]), tps if variant != 'fromfile' else 1000)
        if variant == 'fromfile' and r.random() < 0.4:
            # the source was already partly consumed through read_generic_*(): the copy must still read like a fresh block
            ops.append({'o': 'read_some', 'b': 0, 'n': r.choice([1, 2, 3])})
        src_tables_before = len(ops)
        ops.append({'o': 'tables', 'b': 0})
        ops.append({'o': 'copy', 'how': how, 'src': 0, 'dst': 1})
        if fate == 'mutate':
            ops += content_ops(r, vg, P, 0, r.choice([1, 5, 30]), tps if variant != 'fromfile' else 1000)
        elif fate == 'clear':
            ops.append({'o': 'clear', 'b': 0})
        elif fate == 'destroy':
            ops.append({'o': 'destroy', 'b': 0})

        def both(op):
            a = dict(op, b=1)
            b = dict(op, b=2)
            ops.append(a); ia = len(ops) - 1
            ops.append(b); ib = len(ops) - 1
            pairs.append((ia, ib))
        both({'o': 'tables'})
        both({'o': 'counts'})
        both({'o': 'inv', 'unique': variant != 'fromfile'})
        if variant == 'fromfile':
            # generic reads: only blocks filled by read() are specified to be readable that way (a CdnsBlockRead filled
            # through add_* has no defined read cursor), so the comparison is made for reader-returned blocks only
            both({'o': 'dump_inplace'})
        for op in content_ops(r, vg, P, 1, r.choice([2, 10, 40]), tps if variant != 'fromfile' else 1000):
            both(op)
        # re-add values the source held (existing values must be found, not duplicated)
        for op in lineage[:10]:
            if op['o'] == 'add':
                both(op)
        for t in tablemodel.TABLES:
            both({'o': 'get', 't': t, 'i': r.randrange(0, 4)})
        both({'o': 'tables'})
        both({'o': 'inv', 'unique': variant != 'fromfile'})
        both({'o': 'ser'})
        src_after = None
        if fate == 'keep' and how in ('cctor', 'cassign'):
            # only a COPY must leave its source as it was; a move may take the source's content
            ops.append({'o': 'tables', 'b': 0})
            src_after = len(ops) - 1
        cases.append(({'id': 'v%05d' % i, 'ops': ops}, pairs, (src_tables_before, src_after), (variant, how, fate)))
    return cases


def norm_ser(hexs):
    """serialised block with the address-event array sorted (hash-map order is not part of the guarantee)"""
    if not isinstance(hexs, str) or '7c5245543d' in hexs:      # "|RET=" marker: return value != bytes written
        return hexs
    try:
        node = cbor.decode_one(bytes.fromhex(hexs))
    except (cbor.CborError, ValueError):
        return hexs
    v = node.py()
    out = []
    for k, x in v:
        if k == 4 and isinstance(x, list):
            x = sorted(x, key=repr)
        out.append((k, x))
    return repr(out)


def norm_dump(d):
    if not isinstance(d, dict):
        return d
    d = dict(d)
    if 'aec' in d:
        d['aec'] = sorted(d['aec'], key=lambda a: json.dumps(a, sort_keys=True))
    return d


def run(tier, seed):
    vs = []
    # files with several blocks incl. address events, for the reader-return variants
    fcases = []
    for i in range(4):
        r = gen.seeded(seed, 'C19f', i)
        pre = gen.gen_preamble(r, nbps=1, maxi=r.choice([3, 6]), hints=(gen.ALL_QRH, gen.ALL_SIGH, 3, 3), tps=1000)
        fcases.append(gen.gen_history(r, 'f%d' % i, preamble=pre, comp='none', kind='name', rotations=False, direct=False, addbp=False, nops=60, weights=dict(aec=30, mm=20)))
    er = ExportRun(PROP, fcases, 'c19f', need_lib_read=False)
    wd_files = runner.workdir('c19files')
    files = []
    try:
        for pc in er.per_case:
            if pc:
                for o in pc['outs']:
                    if o.data and o.id in pc['docs'] and len(pc['docs'][o.id].blocks) >= 2:
                        p = os.path.join(wd_files, pc['case']['id'] + '.cdns')
                        with open(p, 'wb') as f:
                            f.write(o.data)
                        files.append((p, len(pc['docs'][o.id].blocks)))
                        # the same file as a producer that does not de-duplicate its tables would write it: the last entry of
                        # some tables once more (indices stay valid)
                        doc = cdns_schema.parse(o.data)
                        for n in cbor.walk(doc.root):
                            if n.major == cbor.MAP and n.ann == 'BlockTables':
                                for k, v in n.value:
                                    if k.value in (0, 1, 2, 5, 7) and v.major == cbor.ARRAY and v.value:
                                        v.value.append(v.value[-1])
                                        v.width = None
                        p2 = os.path.join(wd_files, pc['case']['id'] + '_dup.cdns')
                        with open(p2, 'wb') as f:
                            f.write(cbor.encode(doc.root))
                        files.append((p2, len(pc['docs'][o.id].blocks)))
    finally:
        er.close()
    try:
        full = make_cases(tier, seed, files)
        cases = [c[0] for c in full]
        res, crashes, wd = runner.run_cases('asan', 'table', cases, 'c19', pre_args_fn=lambda w: [w])
        runner.cleanup(wd)
    finally:
        runner.cleanup(wd_files)
    combos = {}
    for c in crashes:
        variant, how, fate = full[c.case_index][3]
        vs.append(Violation(PROP, '%s:%s' % (PROP, c.key_tail()), 'block obtained by %s of a %s (source then: %s): %s in %s' % (how, variant, fate, c.cls, c.func),
                            {'case_id': cases[c.case_index]['id'], 'variant': [variant, how, fate], 'ops_head': [o for o in cases[c.case_index]['ops'] if o['o'] in ('new', 'copy', 'clear', 'destroy', 'fromfile')][:12], 'report': c.excerpt}))
    compared = 0
    for i, (case, pairs, (sb, sa), vhf) in enumerate(full):
        r = res.get(i)
        if r is None:
            continue
        combos[vhf] = combos.get(vhf, 0) + 1
        got = r['res']
        variant, how, fate = vhf
        for ia, ib in pairs:
            a, b = got[ia], got[ib]
            o = case['ops'][ia]['o']
            if o == 'ser':
                a, b = norm_ser(a), norm_ser(b)
            elif o == 'dump_inplace':
                a, b = norm_dump(a), norm_dump(b)
            compared += 1
            if o == 'inv' and a != '':
                vs.append(Violation(PROP, '%s:hook:%s' % (PROP, str(a).split(';')[0].split(': ')[-1][:50]), 'copy (%s of %s, source %s): structural invariant broken: %s' % (how, variant, fate, a), {'case_id': case['id'], 'variant': list(vhf)}))
                break
            if a != b:
                vs.append(Violation(PROP, '%s:copy-vs-fresh:%s:%s' % (PROP, o, case['ops'][ia].get('t', case['ops'][ia].get('k', '-'))),
                                    'block obtained by %s of a %s (source then: %s) answers %s with %s, a freshly built block with the same content with %s' % (how, variant, fate, o, str(a)[:100], str(b)[:100]),
                                    {'case_id': case['id'], 'variant': list(vhf), 'op': case['ops'][ia]}))
                break
        if sa is not None and got[sb] != got[sa]:
            vs.append(Violation(PROP, '%s:source-changed-by-copy' % PROP, 'operations on the copy (%s of %s) changed the tables of its source' % (how, variant), {'case_id': case['id'], 'variant': list(vhf)}))
    obs = dict(histories=len(cases), paired_operations_compared=compared, variants={'/'.join(k): v for k, v in sorted(combos.items())}, reader_files=len(files))
    cov = dict(evaluations=len(cases), distinct_nontrivial=len(cases),
               rule='build a block (tables + generic records, or a block returned by CdnsReader), obtain a second one by copy ctor / move ctor / copy assignment / move assignment (CdnsBlock and CdnsBlockRead), then keep / mutate / clear / '
                    'destroy the source; every following operation (add of existing and new values, get, generic reads, serialisation, hook invariant) is run on the copy and on a freshly built twin and must agree; ASan watches for dangling references; '
                    'histories distinct by construction (seed, way of copying, fate of the source)',
               samples=[{'variant': list(full[0][3]), 'ops': [o for o in full[0][0]['ops']][:6]}], observed=obs)
    inc = None if len(combos) >= 24 else 'only %d variant/how/fate combinations executed' % len(combos)
    return dict(violations=vs, coverage=cov, inconclusive=inc)
