"""C05 - end of input is always detected; a truncated file yields only complete blocks (DESIGN 4/C05)."""
import os

from vlib import cbor, cdns_schema, gen, pipeline, runner
from vlib.findings import Violation
from .common import ExportRun

PROP, LEVEL = 'C05', 'exploration'
W = 65535
END = {'exc': 'CdnsDecoderEnd'}
FIRST_OPS = ['peek', 'u', 'n', 'i', 'b', 'bs', 'tx', 'arr', 'map', 'brk', 'skip', 'arr_u']


def decoder_cases(tier, seed):
    cases, exps = [], []
    lengths = [0]
    for k in range(0, 4):
        for d in (-3, -2, -1, 0, 1, 2, 3):
            t = k * W + d
            if t > 0:
                lengths.append(t)
    lengths += [5, 64]
    i = 0
    for T in sorted(set(lengths)):
        for stream in ('sstream', 'ifstream'):
            for fo in FIRST_OPS:
                # input: [filler string] + up to 3 one-byte integers, total length exactly T
                segs, ops, exp = [], [], []
                tail = min(T, (T + i) % 4)
                body = T - tail
                if body > 0:
                    # definite byte string with the smallest head such that head + payload == body
                    for w in (0, 1, 2, 4):
                        n = body - 1 - w
                        if n >= 0 and cbor.min_width(n) <= w:
                            segs.append({'hex': cbor.enc_head(2, n, w).hex()})
                            if n:
                                segs.append({'rep': '5a', 'n': n})
                            ops.append('skip'); exp.append('ok')
                            break
                    else:
                        tail, body = T, 0
                        segs = []
                if tail:
                    vals = [(i + j) % 24 for j in range(tail)]
                    segs.append({'hex': bytes(vals).hex()})
                    ops += ['u'] * tail
                    exp += vals
                ops += [fo, 'peek', 'u', fo]
                exp += [END, END, END, END]
                cases.append({'id': 'd%05d' % i, 'stream': stream, 'segs': segs, 'ops': ops})
                exps.append((exp, T, stream, fo))
                i += 1
    # an item whose multi-byte head / payload straddles a window boundary, with the input cut inside it
    for k in (1, 2):
        for w, major in ((2, 0), (4, 0), (8, 0), (4, 1), (2, 2), (4, 2), (2, 4), (8, 5), (4, 6), (8, 7)):
            for back in range(1, w + 1):           # the item starts `back` bytes before the boundary
                for have in range(back, w + 1):    # bytes of the item present (1 + w needed) -> always incomplete
                    start = k * W - back
                    n = start - 5
                    segs = [{'hex': cbor.enc_head(2, n, 4).hex()}, {'rep': 'c3', 'n': n}]
                    if major == 7:
                        item = bytes([0xe0 | {2: 25, 4: 26, 8: 27}[w]]) + bytes(range(0xa1, 0xa1 + w))
                    else:
                        item = cbor.enc_head(major, int.from_bytes(bytes(range(0xa1, 0xa1 + w)), 'big') if major in (0, 1, 6) else 3, w)
                    segs.append({'hex': item[:have].hex()})
                    fo = {0: 'u', 1: 'n', 2: 'bs', 4: 'arr', 5: 'map', 6: 'skip', 7: 'skip'}[major]
                    for op1 in (fo, 'skip'):
                        cases.append({'id': 'd%05d' % i, 'stream': 'sstream' if i % 2 else 'ifstream', 'segs': segs, 'ops': ['skip', op1, 'peek']})
                        exps.append((['ok', END, END], start + have, 'straddle', op1))
                        i += 1
    # a long definite-length string (read or skipped) with the input cut inside it, before and beyond the window end
    for L in (70000, 140000, 66000):
        for major, rd in ((2, 'bs'), (3, 'tx')):
            head = cbor.enc_head(major, L, 4)
            cutset = sorted(set([1, 2, 100, L - 1, L // 2] + [k * W + d - 5 for k in (1, 2) for d in range(-3, 4) if 0 < k * W + d - 5 < L]))
            for have in cutset:
                for op1 in (rd, 'skip'):
                    segs = [{'hex': head.hex()}, {'rep': '7a', 'n': have}]
                    cases.append({'id': 'd%05d' % i, 'stream': 'sstream' if i % 2 else 'ifstream', 'segs': segs, 'ops': [op1, 'peek', op1]})
                    exps.append(([END, END, END], 5 + have, 'cut-inside-string', op1))
                    i += 1
            # the same string nested as the value of a map entry inside an array that is skipped as a whole
            for have in cutset[::3]:
                segs = [{'hex': '81a10c' + head.hex()}, {'rep': '7a', 'n': have}]
                cases.append({'id': 'd%05d' % i, 'stream': 'sstream', 'segs': segs, 'ops': ['skip', 'peek']})
                exps.append(([END, END], 8 + have, 'cut-inside-nested-string', 'skip'))
                i += 1
    # streams that cannot be read: never opened, missing file, a directory
    for fo in FIRST_OPS:
        for stream, extra in (('unopened', {}), ('ifstream', {'path': '/nonexistent/verif/input'}), ('ifstream', {'path': '/tmp'})):
            c = {'id': 'd%05d' % i, 'stream': stream, 'ops': [fo, 'peek', 'u']}
            c.update(extra)
            cases.append(c)
            exps.append(([END, END, END], -1, stream + ':' + extra.get('path', ''), fo))
            i += 1
    return cases, exps


def build_files(tier, seed, nfiles):
    """valid multi-block files, padded so that a block boundary falls exactly on / next to a multiple of 65535"""
    files = []
    for fi in range(nfiles):
        r = gen.seeded(seed, 'C05file', fi)
        target_delta = [0, 1, -1, 2, 3][fi % 5]
        pad = 40
        data = None
        for attempt in range(5):
            rr = gen.seeded(seed, 'C05file', fi)
            pre = gen.gen_preamble(rr, nbps=1, maxi=rr.choice([40, 80, 150]), hints=(gen.ALL_QRH, gen.ALL_SIGH, 3, 3), tps=10 ** 6)
            pre['bps'][0].pop('cp', None)
            c = gen.gen_history(rr, 'f%03d' % fi, preamble=pre, nops=rr.choice([500, 900]) if fi % 3 else 1500, big=True, direct=False, rotations=False, addbp=False,
                                kind='name', comp='none', weights=dict(setactive=0, counters=0, wb=1))
            c['ops'].insert(0, {'op': 'qr', 'r': {'tid': 1, 'asn': ('70' * pad)}})
            er = ExportRun(PROP, [c], 'c05gen', need_lib_read=False)
            try:
                pc = er.per_case[0]
                if pc is None or not pc['docs']:
                    break
                o = pc['outs'][0]
                d = pc['docs'][o.id]
                data = o.data
                spans = d.block_spans
            finally:
                er.close()
            # steer: move the end of some block onto k*W + target_delta
            best = None
            for (s, e) in spans[1:]:
                k = (e + W // 2) // W
                if k >= 1:
                    need = k * W + target_delta - e
                    if best is None or abs(need) < abs(best):
                        best = need
            if best is None or best == 0:
                break
            if pad + best < 0:
                best += W
            pad += best
        if data:
            files.append((fi, data, spans))
    return files


def run(tier, seed):
    vs = []
    # ---- part A: decoder
    cases, exps = decoder_cases(tier, seed)
    results, crashes, wd = runner.run_cases('asan', 'dec', cases, 'c05d', pre_args_fn=lambda w: [w])
    ended = 0
    try:
        for c in crashes:
            vs.append(Violation(PROP, '%s:%s' % (PROP, c.key_tail()), 'decoder driver died near end of input: %s in %s' % (c.cls, c.func), {'case': cases[c.case_index], 'report': c.excerpt}))
        for i, (exp, T, stream, fo) in enumerate(exps):
            r = results.get(i)
            if r is None:
                continue
            if not r.get('hook', True):
                vs.append(Violation(PROP, '%s:hook:decoder-window' % PROP, 'decoder position ran past its window (input length %s, stream %s)' % (T, stream), {'case': cases[i]}))
            got = r['res']
            for oi, e in enumerate(exp):
                g = got[oi] if oi < len(got) else None
                if g != e:
                    lenclass = 'empty' if T == 0 else 'unreadable' if T < 0 else ('multiple-of-window' if T % W == 0 else 'other-length')
                    if e == END:
                        vs.append(Violation(PROP, '%s:no-end-of-input:%s:%s' % (PROP, lenclass, stream.split(':')[0]), 'input of %s bytes (%s): op %d (%s) after exhaustion returned %s instead of throwing CdnsDecoderEnd' % (T, stream, oi, cases[i]['ops'][oi], str(g)[:60]), {'case': cases[i], 'expected': exp}))
                    else:
                        vs.append(Violation(PROP, '%s:value-before-end:%s' % (PROP, lenclass), 'input of %s bytes: op %d returned %s, expected %s' % (T, oi, str(g)[:60], e), {'case': cases[i], 'expected': exp}))
                    break
            else:
                ended += 1
    finally:
        runner.cleanup(wd)
    # ---- part B: reader over prefixes of valid files
    nfiles = 3 if tier == 'quick' else 40
    files = build_files(tier, seed, nfiles)
    # small files with every kind of member, cut at EVERY byte (each member head, key and value is cut through once)
    nsmall = 5 if tier == 'quick' else 60
    small_cases = []
    for k in range(nsmall):
        rr = gen.seeded(seed, 'C05small', k)
        pre = gen.gen_preamble(rr, nbps=rr.choice([1, 2]), maxi=rr.choice([2, 3, 5]), hints=(gen.ALL_QRH, gen.ALL_SIGH, 3, 3), tps=10 ** 6)
        small_cases.append(gen.gen_history(rr, 's%03d' % k, preamble=pre, nops=rr.choice([8, 14]), direct=(k % 2 == 0), rotations=False, addbp=False, stats_p=0.6,
                                           kind='name', comp='none', weights=dict(qr=30, mm=25, aec=15, wb=6, counters=0, setactive=3)))
    ers = ExportRun(PROP, small_cases, 'c05small', need_lib_read=False)
    try:
        for pc in ers.per_case:
            if pc and pc['docs']:
                o = pc['outs'][0]
                if o.data and len(o.data) < 12000:
                    files.append((1000 + len(files), o.data, pc['docs'][o.id].block_spans))
    finally:
        ers.close()
    wd2 = runner.workdir('c05p')
    cuts_total = 0
    boundary_hits = 0
    try:
        jobs, meta = [], []
        for fi, data, spans in files:
            p = os.path.join(wd2, 'f%d.cdns' % fi)
            with open(p, 'wb') as f:
                f.write(data)
            L = len(data)
            r = gen.seeded(seed, 'C05cuts', fi)
            cuts = set(range(0, 65)) | set(range(max(0, L - 64), L + 1))
            for (s, e) in spans:
                cuts |= set(range(max(0, e - 4), min(L, e + 4) + 1)) | set(range(max(0, s - 2), min(L, s + 2) + 1))
            for k in range(1, L // W + 1):
                cuts |= set(range(k * W - 4, min(L, k * W + 4) + 1))
            cuts |= {r.randrange(0, L) for _ in range(100 if tier == 'quick' else 300)}
            if fi >= 1000:
                cuts = set(range(0, L + 1))
            boundary_hits += sum(1 for (s, e) in spans if min(e % W, W - e % W) <= 3)
            jobs.append({'id': 'f%d/full' % fi, 'path': p, 'stream': 'ifstream', 'dump': 'hash'})
            meta.append((fi, L, None))
            for n in sorted(cuts):
                j = {'id': 'f%d/%d' % (fi, n), 'path': p, 'stream': 'sstream', 'dump': 'hash', 'cut': n}
                if n % 37 == 0:
                    pp = os.path.join(wd2, 'f%d_%d.cut' % (fi, n))
                    with open(pp, 'wb') as f:
                        f.write(data[:n])
                    j = {'id': 'f%d/%d' % (fi, n), 'path': pp, 'stream': 'ifstream', 'dump': 'hash'}
                jobs.append(j)
                meta.append((fi, L, n))
        res, crashes, wd3 = runner.run_cases('asan', 'read', jobs, 'c05r')
        runner.cleanup(wd3)
        for c in crashes:
            vs.append(Violation(PROP, '%s:%s' % (PROP, c.key_tail()), 'reader died on a truncated file: %s in %s' % (c.cls, c.func), {'job': jobs[c.case_index], 'report': c.excerpt}))
        full_hash = {}
        byfile = {fi: (data, spans) for fi, data, spans in files}
        for i, (fi, L, n) in enumerate(meta):
            if n is None and i in res:
                full_hash[fi] = res[i]['blocks']
                if res[i].get('end') != 'eof' or len(res[i]['blocks']) != len(byfile[fi][1]):
                    vs.append(Violation(PROP, '%s:full-file-not-read' % PROP, 'complete file: reader returned %d of %d blocks, end=%s' % (len(res[i]['blocks']), len(byfile[fi][1]), res[i].get('end')), {'file': fi}))
        for i, (fi, L, n) in enumerate(meta):
            if n is None or i not in res or fi not in full_hash:
                continue
            cuts_total += 1
            r = res[i]
            spans = byfile[fi][1]
            want = sum(1 for (s, e) in spans if e <= n)
            near = 'at-window-multiple' if min(n % W, W - n % W) <= 4 and n > 100 else 'elsewhere'
            if not r.get('hook_ok', True):
                vs.append(Violation(PROP, '%s:hook:decoder-window' % PROP, 'prefix %d of %d bytes: decoder position left its window' % (n, L), {'file': fi, 'cut': n}))
            if n == L:
                ok_end = r.get('end') == 'eof'
            elif r.get('hdr') != 'ok':
                ok_end = isinstance(r.get('hdr'), dict) and r['hdr'].get('exc') == 'CdnsDecoderEnd' and want == 0
            else:
                ok_end = isinstance(r.get('end'), dict) and r['end'].get('exc') == 'CdnsDecoderEnd'
            if r.get('nblocks') != want:
                vs.append(Violation(PROP, '%s:prefix-block-count:%s' % (PROP, near), 'prefix of %d/%d bytes: reader returned %s blocks, exactly %d lie wholly inside the prefix' % (n, L, r.get('nblocks'), want), {'file': fi, 'cut': n, 'result': {k: r.get(k) for k in ('hdr', 'end', 'nblocks')}}))
            elif r['blocks'] != full_hash[fi][:want]:
                vs.append(Violation(PROP, '%s:prefix-block-content:%s' % (PROP, near), 'prefix of %d/%d bytes: a returned block differs from the same block of the full file' % (n, L), {'file': fi, 'cut': n}))
            elif not ok_end:
                vs.append(Violation(PROP, '%s:prefix-end:%s' % (PROP, near), 'prefix of %d/%d bytes: reading ended with hdr=%s end=%s instead of an end-of-input error' % (n, L, r.get('hdr'), r.get('end')), {'file': fi, 'cut': n}))
    finally:
        runner.cleanup(wd2)
    obs = dict(decoder_cases=len(cases), decoder_cases_ending_with_CdnsDecoderEnd=ended, first_ops=FIRST_OPS, input_lengths='0, k*65535+{-3..3} for k=0..3, 5, 64; unopened / missing / directory streams',
               files=len(files), file_sizes=[len(d) for _, d, _ in files], blocks_per_file=[len(s) for _, _, s in files], prefix_cuts=cuts_total,
               block_boundaries_within_3_bytes_of_a_window_multiple=boundary_hits)
    cov = dict(evaluations=len(cases) + cuts_total, distinct_nontrivial=len(cases) + cuts_total,
               rule='decoder: inputs of exactly controlled length (incl. 0 and multiples of the 65535-byte window) x stream kind x 12 first operations after exhaustion; reader: every prefix f[:n] for n exhaustive '
                    'within +-4 of every block boundary and every window multiple, 0..64, |f|-64..|f|, plus random n; small files (< 12 kB, all record kinds): EVERY n; all cases distinct by construction (length/stream/op or file/cut)',
               samples=[cases[0], cases[len(cases) // 2], {'file_bytes': len(files[0][1]) if files else 0, 'block_spans': files[0][2][:4] if files else []}], observed=obs)
    inc = None
    if not files:
        inc = 'no multi-block file could be generated'
    return dict(violations=vs, coverage=cov, inconclusive=inc)
