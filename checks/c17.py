"""C17 - timestamp offsets are exact, invertible and never negative within a block (DESIGN 4/C17)."""
import os

from vlib import build, gen, pipeline, runner
from vlib.findings import Violation
from .common import ExportRun, sample_of

PROP, LEVEL = 'C17', 'exploration'
I64MIN, I64MAX = -2 ** 63, 2 ** 63 - 1


def total(s, t, tps):
    return s * tps + t


def gen_lines(tier, seed):
    """-> list of (line, checker) ; checker(result_line) -> None | (key, what)"""
    out = []

    def off(s, t, rs, rt, tps):
        want = total(s, t, tps) - total(rs, rt, tps)

        def chk(res):
            if tps == 0:
                return None if res == 'EXC' else ('off:rate0-not-refused', 'get_time_offset at rate 0 returned %s' % res)
            if res != str(want):
                return ('off:wrong-difference', 'get_time_offset((%d,%d),(%d,%d),%d) = %s, exact difference is %d' % (s, t, rs, rt, tps, res, want))
        out.append(('off %d %d %d %d %d' % (s, t, rs, rt, tps), chk))

    def add(s, t, o, tps):
        def chk(res):
            p = res.split()
            if tps == 0:
                ok = p[0] == 'EXC' and [int(p[1]), int(p[2])] == [s, t]
                return None if ok else ('add:rate0', 'add_time_offset at rate 0: %s' % res)
            tot = total(s, t, tps) + o
            if tot < 0:
                ok = p[0] == 'EXC' and [int(p[1]), int(p[2])] == [s, t]
                return None if ok else ('add:before-epoch-not-refused', 'add_time_offset((%d,%d),%d,%d) would precede the epoch but gave %s' % (s, t, o, tps, res))
            if tot > I64MAX:
                # result not representable in the tick counter: refused (timestamp unchanged) or exact - never anything else
                if p[0] == 'EXC':
                    return None if [int(p[1]), int(p[2])] == [s, t] else ('add:modified-on-refusal', 'timestamp changed by a refused add: %s' % res)
                return None if [int(p[0]), int(p[1])] == [tot // tps, tot % tps] else ('add:wrong-unrepresentable', 'add_time_offset((%d,%d),%d,%d) = %s' % (s, t, o, tps, res))
            if p[0] == 'EXC':
                return ('add:refused-valid', 'add_time_offset((%d,%d),%d,%d) refused although the result %d ticks is valid' % (s, t, o, tps, tot))
            if [int(p[0]), int(p[1])] != [tot // tps, tot % tps]:
                return ('add:wrong-sum', 'add_time_offset((%d,%d),%d,%d) = %s, exact result is (%d,%d)' % (s, t, o, tps, res, tot // tps, tot % tps))
        out.append(('add %d %d %d %d' % (s, t, o, tps), chk))

    def cmp(s, t, rs, rt):
        for op, f in (('lt', lambda a, b: a < b), ('le', lambda a, b: a <= b)):
            want = '1' if f((s, t), (rs, rt)) else '0'
            out.append(('%s %d %d %d %d' % (op, s, t, rs, rt), (lambda w, o: (lambda res: None if res == w else ('cmp:%s' % o, '%s((%d,%d),(%d,%d)) = %s, instants order says %s' % (o, s, t, rs, rt, res, w))))(want, op)))

    # exhaustive small grid
    grid = 0
    for tps in (1, 2, 3, 4):
        for s in range(0, 4):
            for t in range(0, tps):
                for rs in range(0, 4):
                    for rt in range(0, tps):
                        off(s, t, rs, rt, tps)
                        cmp(s, t, rs, rt)
                        grid += 1
                for o in range(-20, 21):
                    add(s, t, o, tps)
                    grid += 1
    # round trip: offset then add back reproduces the instant (checked through the two exact oracles above on the same tuples)
    r = gen.seeded(seed, 'C17')
    rates = [1, 10, 1000, 10 ** 6, 10 ** 9]
    nrand = 60000 if tier == 'quick' else 600000
    for i in range(nrand):
        tps = r.choice(rates) if r.random() < 0.8 else r.randrange(1, 10 ** 9 + 1)
        lim = I64MAX // tps

        def ts():
            k = r.random()
            if k < 0.06:
                # the very last representable second: secs*tps + ticks <= 2^63-1 still holds for small ticks
                s = lim
                t = r.choice([0, I64MAX % tps, (I64MAX % tps) // 2])
                return s, min(t, tps - 1, I64MAX - lim * tps)
            if k < 0.3:
                s = r.choice([0, 0, 1, 2 ** 31 - 1, 2 ** 31, 2 ** 32 - 1, 2 ** 32, 9223372036, lim - 1, lim // 2])
                s = max(0, min(s, lim - 1))
            else:
                s = r.randrange(0, min(lim, 2 ** 40))
            t = r.choice([0, 0, 1, tps - 1, tps // 2]) if r.random() < 0.5 else r.randrange(0, tps)
            return s, min(t, tps - 1)
        (s, t), (rs, rt) = ts(), ts()
        off(s, t, rs, rt, tps)
        add(rs, rt, total(s, t, tps) - total(rs, rt, tps), tps)      # adding the offset back must give (s, t) normalised
        cmp(s, t, rs, rt)
        o = r.choice([I64MIN, I64MIN + 1, -1, 0, 1, I64MAX, I64MAX - 1, -total(s, t, tps), -total(s, t, tps) - 1, I64MAX - total(s, t, tps), I64MAX - total(s, t, tps) + 1]) if r.random() < 0.5 else r.randrange(I64MIN, I64MAX + 1)
        o = max(I64MIN, min(I64MAX, o))
        add(s, t, o, tps)
        if i % 50 == 0:
            add(s, t, o, 0)
            off(s, t, rs, rt, 0)
            # unnormalised input (ticks >= rate) must come out normalised
            add(s % 1000, t + tps * r.randrange(1, 5), r.randrange(0, 1000), tps)
    return out, grid


def run(tier, seed):
    vs = []
    lines, grid = gen_lines(tier, seed)
    drvd, _ = build.ensure('asan')
    wd = runner.workdir('c17')
    try:
        sp, rp = os.path.join(wd, 's.txt'), os.path.join(wd, 'r.txt')
        with open(sp, 'w') as f:
            f.write('\n'.join(l for l, _ in lines) + '\n')
        rc, out, err, to = runner.run_tool(os.path.join(drvd, 'vdrv'), ['ts', sp, rp], timeout=600)
        done = 0
        if os.path.exists(rp):
            res = open(rp).read().split('\n')
            for (l, chk), got in zip(lines, res):
                if got == '':
                    break
                try:
                    bad = chk(got)
                except (IndexError, ValueError):
                    # a result line cut off by the death of the driver (reported below with the operation that was running)
                    if rc != 0 or to:
                        break
                    bad = ('driver-output', 'unparsable result line %r' % got)
                done += 1
                if bad:
                    vs.append(Violation(PROP, '%s:%s' % (PROP, bad[0]), bad[1], {'line': l, 'result': got}))
        if rc != 0 or to:
            tr = runner.triage(err, rc) or ('exit-%s' % rc, 'unknown-frame', err[-1500:])
            culprit = lines[done][0] if done < len(lines) else '?'
            vs.append(Violation(PROP, '%s:%s:%s' % (PROP, tr[0], tr[1]), 'timestamp driver died (%s in %s) at operation "%s"' % (tr[0], tr[1], culprit), {'line': culprit, 'report': tr[2]}))
    finally:
        runner.cleanup(wd)
    # block side: shuffled arrival orders of timed/untimed records, several kinds, direct adds
    n = 900 if tier == 'quick' else 6000
    cases = []
    for i in range(n):
        r = gen.seeded(seed, 'C17b', i)
        tps = r.choice([1, 1000, 10 ** 6, 10 ** 9])
        pre = gen.gen_preamble(r, nbps=1, tps=tps, maxi=r.choice([3, 7, 50, 10000]), hints=(gen.ALL_QRH, gen.ALL_SIGH, 3, 3) if i % 3 else None)
        base = r.randrange(10, 2 * 10 ** 9) if i % 6 else r.choice([0, 0, 1, 3])     # also instants at / next to the epoch itself
        ops = []
        for k in range(r.choice([3, 6, 12, 30])):
            ts = [max(0, base + r.randrange(-8, 9)), r.randrange(0, tps)]
            if i % 6 == 0 and r.random() < 0.4:
                ts = [r.choice([0, 0, 1]), min(tps - 1, r.choice([0, 0, 1, tps - 1]))]
            x = r.random()
            rec = {'tid': k}
            if r.random() < 0.75:
                rec['ts'] = ts
            if x < 0.45:
                ops.append({'op': 'qr', 'r': rec})
            elif x < 0.8:
                m = {'cport': k}
                if 'ts' in rec: m['ts'] = ts
                ops.append({'op': 'mm', 'r': m})
            elif x < 0.9:
                ops.append({'op': 'aec', 'r': {'t': 1, 'ip': '0a000001'}})
            else:
                items = []
                for kk in range(r.choice([1, 3])):
                    tsd = [max(0, base + r.randrange(-8, 9)), r.randrange(0, tps)]
                    if i % 6 == 0 and r.random() < 0.4:
                        tsd = [0, 0]
                    items.append({'k': r.choice(['rawqr', 'rawmm']), 'r': {'ts': tsd, 'cport': kk}} if r.random() < 0.7 else {'k': 'rawqr', 'r': {'cport': kk}})
                ops.append({'op': 'dblock', 'bp': 0, 'items': items})
        ops.append({'op': 'wb'})
        if i % 4 == 1:
            # the active parameters' tick rate is edited in place (same index) and taken into use by a rotation; the records of the
            # next output, spread over several seconds and arriving out of order, are stored under the new rate
            tps2 = r.choice([x for x in (1, 1000, 10 ** 6, 10 ** 9) if x != tps])
            ops += [{'op': 'edithints', 'tps': tps2}, {'op': 'rotate', 'id': 'o1', 'export': True}]
            for k in range(r.choice([3, 6, 12])):
                ts = [max(0, base + r.randrange(-8, 9)), r.randrange(0, tps2)]
                if r.random() < 0.5:
                    ops.append({'op': 'qr', 'r': {'tid': 100 + k, 'ts': ts}})
                else:
                    ops.append({'op': 'mm', 'r': {'cport': 100 + k, 'ts': ts}})
            ops.append({'op': 'wb'})
        if i % 4 == 3:
            # two parameter sets, the exporter switches from a fine tick rate to a coarser one; the block written last under the fine
            # rate had its earliest time late in the second; the first item of the next block carries no time, timed ones follow
            tps_hi, tps_lo = r.choice([(10 ** 6, 1000), (10 ** 9, 1000), (10 ** 9, 10 ** 6), (1000, 1), (10 ** 6, 10)])
            pre = gen.gen_preamble(r, nbps=2, tps=tps_hi, maxi=10000, hints=(gen.ALL_QRH, gen.ALL_SIGH, 3, 3))
            pre['bps'][1]['tps'] = tps_lo
            base = r.randrange(10, 2 * 10 ** 9)
            ops = [{'op': 'qr', 'r': {'tid': 1, 'ts': [base, tps_hi - 1 - r.randrange(0, 3)]}}, {'op': 'mm', 'r': {'cport': 2, 'ts': [base + 1, 5]}}, {'op': 'wb'},
                   {'op': 'setactive', 'idx': 1}, {'op': 'wb'},
                   {'op': 'qr' if r.random() < 0.5 else 'mm', 'r': {'cport': 3}}]
            for k in range(r.choice([1, 3, 6])):
                ts = [base + r.choice([0, 1, 2, 50, 500, 900, 2000]), r.randrange(0, tps_lo)]
                ops.append({'op': 'qr', 'r': {'tid': 10 + k, 'ts': ts}} if r.random() < 0.6 else {'op': 'mm', 'r': {'cport': 10 + k, 'ts': ts}})
            ops.append({'op': 'wb'})
        cases.append({'id': 't%05d' % i, 'preamble': pre, 'open': {'id': 'o0', 'kind': 'fd', 'comp': 'none'}, 'ops': ops})
    er = ExportRun(PROP, cases, 'c17b', need_lib_read=True)
    try:
        vs += er.violations
        timed = 0
        for pc in er.per_case:
            if pc is None:
                continue
            vs += pipeline.judge_times(PROP, pc['case'], pc['outs'], pc['docs'])
            vs += pipeline.judge_roundtrip(PROP, pc['case'], pc['outs'], pc['exp_out'], pc['docs'], er.dumps)
            for d in pc['docs'].values():
                for b in d.blocks:
                    timed += sum(1 for x in b['qr'] + b['mm'] if 'ts' in x)
        obs = dict(timestamp_operations=len(lines), exhaustive_grid_operations=grid, blocks=er.obs['blocks'], timed_records_recovered_exactly=timed)
    finally:
        er.close()
    cov = dict(evaluations=len(lines) + len(cases), distinct_nontrivial=len({l for l, _ in lines}) + len(cases),
               rule='get_time_offset / add_time_offset / < / <= against Python big-integer arithmetic: exhaustive grid (secs 0..3, ticks 0..rate-1, rate 1..4, offsets -20..20), boundary and random tuples with '
                    'secs*rate+ticks < 2^63, offsets over all of int64 incl. INT64_MIN (UBSan watches the arithmetic); blocks: shuffled arrival orders of timed/untimed Q/R, malformed messages and direct adds; '
                    'distinct = distinct operation tuples / histories',
               samples=[lines[0][0], lines[len(lines) // 2][0], sample_of(cases[0], 4)], observed=obs, exhaustive=False)
    return dict(violations=vs, coverage=cov,
                assumptions=['offsets whose result does not fit the signed 64-bit tick counter: only "refused or exact, no UB" is asserted'])
