"""Helpers shared by the checks built on exporter histories."""
import hashlib
import json

from vlib import gen, model, pipeline, runner


def case_hash(c):
    return hashlib.sha256(json.dumps(c, sort_keys=True).encode()).hexdigest()[:12]


def sample_of(case, maxops=6):
    c = {'id': case['id'], 'open': case['open'], 'bps': [{k: b[k] for k in ('tps', 'max', 'qrh', 'sigh', 'rrh', 'oth')} for b in case['preamble']['bps']],
         'ops': case['ops'][:maxops], 'n_ops': len(case['ops'])}
    return json.loads(json.dumps(c)[:4000]) if len(json.dumps(c)) < 4000 else {'id': case['id'], 'open': case['open'], 'n_ops': len(case['ops']), 'first_op': case['ops'][:1]}


class ExportRun(object):
    """runs cases through the export driver and prepares everything the judges need"""

    def __init__(self, prop, cases, tag, need_lib_read=True, tables=False, flavour='asan'):
        self.prop = prop
        self.cases = cases
        self.violations = []
        self.results, crashes, self.wd = pipeline.run_histories(cases, tag, flavour)
        self.violations += pipeline.crash_violations(prop, crashes, cases)
        self.per_case = []
        files = []
        self.obs = dict(blocks=0, outputs=0, outputs_with_blocks=0, flush_by_size=0, flush_explicit=0, qr=0, aec=0, mm=0,
                        rotations=0, bytes=0, comp={}, kind={}, bps_used=set(), big_outputs=0, direct_blocks=0)
        for i, c in enumerate(cases):
            r = self.results.get(i)
            if r is None:
                self.per_case.append(None)
                continue
            exp, exp_out, m = model.expected_outputs(c)
            outs = pipeline.collect_outputs(c, r)
            if c.get('tolerant'):
                # argument values a library may accept or refuse (outside what a file can express): only the outputs are judged
                vs, docs = pipeline.judge_wellformed_modelfree(prop, c, outs)
                self.violations += vs if prop == 'C02' else []
                self.per_case.append(dict(case=c, res=r, exp=exp, exp_out=exp_out, model=m, outs=outs, docs=docs))
                continue
            self.violations += pipeline.log_exceptions(prop, c, r, exp)
            vs, docs = pipeline.judge_wellformed(prop, c, outs, exp_out) if prop == 'C02' else (None, None)
            if docs is None:
                # other properties still need the parsed documents, but malformed output is C02's business
                _, docs = pipeline.judge_wellformed(prop, c, outs, exp_out)
                vs = []
            self.violations += vs
            self.per_case.append(dict(case=c, res=r, exp=exp, exp_out=exp_out, model=m, outs=outs, docs=docs))
            self.obs['flush_by_size'] += m.flushes_by_size
            self.obs['flush_explicit'] += m.flushes_explicit
            self.obs['comp'][c['open']['comp']] = self.obs['comp'].get(c['open']['comp'], 0) + 1
            self.obs['kind'][c['open']['kind']] = self.obs['kind'].get(c['open']['kind'], 0) + 1
            self.obs['rotations'] += sum(1 for o in c['ops'] if o['op'] == 'rotate')
            self.obs['direct_blocks'] += sum(1 for o in c['ops'] if o['op'] == 'dblock')
            for o in outs:
                self.obs['outputs'] += 1
                if o.data:
                    self.obs['outputs_with_blocks'] += 1
                    self.obs['bytes'] += len(o.data)
                    if len(o.data) > 3 * 65535:
                        self.obs['big_outputs'] += 1
                    if need_lib_read:
                        files.append((c['id'] + '/' + o.id, o.data))
            for d in docs.values():
                for b in d.blocks:
                    self.obs['blocks'] += 1
                    self.obs['qr'] += b['counts'][0]
                    self.obs['aec'] += b['counts'][1]
                    self.obs['mm'] += b['counts'][2]
                    self.obs['bps_used'].add(b['bpi'] or 0)
        self.dumps = {}
        if need_lib_read and files:
            # ids contain '/', make file-name safe ids
            safe = [(fid.replace('/', '__'), data) for fid, data in files]
            dumps, rcr = pipeline.read_back(safe, tag, self.wd, tables=tables)
            self.dumps = {k.replace('__', '/'): v for k, v in dumps.items()}
            for c in rcr:
                from vlib.findings import Violation
                self.violations.append(Violation(prop, '%s:reader:%s' % (prop, c.key_tail()), 'reading an exporter output back: %s in %s' % (c.cls, c.func), {'report': c.excerpt}))
        self.obs['bps_used'] = sorted(self.obs['bps_used'])

    def close(self):
        runner.cleanup(self.wd)

    def nontrivial(self, rule):
        seen = set()
        for pc in self.per_case:
            if pc is None:
                continue
            if rule(pc):
                seen.add(case_hash(pc['case']))
        return len(seen)
