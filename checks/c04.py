"""C04 - storage hints are honoured: nothing the configuration excludes reaches the file (DESIGN 4/C04)."""
import itertools

from vlib import gen, model, pipeline
from vlib.findings import Violation
from .common import ExportRun, sample_of

PROP, LEVEL = 'C04', 'exploration'

BYTE_FIELDS_QR = ['cip', 'sip', 'optrd', 'qname', 'bail']
SECTIONS = ['qq', 'qan', 'qau', 'qad', 'rq', 'ran', 'rau', 'rad']


class Canary(object):
    def __init__(self, r):
        self.r = r
        self.n = 0

    def make(self, length=12):
        self.n += 1
        return (b'\xc4\x9a' + self.n.to_bytes(3, 'big') + gen.rbytes(self.r, length - 5)).hex()


def full_qr(r, can, tps, base):
    """record with every optional field set; every byte-string value unique (canary)"""
    P = gen.Pools(r)
    q = gen.gen_qr(r, P, tps, base, 'full')
    q['cip'] = can.make(16); q['sip'] = can.make(16); q['optrd'] = can.make(); q['qname'] = can.make(20); q['bail'] = can.make(14)
    for s in SECTIONS:
        q[s] = []
        for _ in range(r.choice([1, 2])):
            rr = {'n': can.make(), 't': r.randrange(1, 60000), 'c': r.randrange(1, 60000)}
            if s not in ('qq', 'rq'):
                rr['ttl'] = r.randrange(0, 2 ** 32)
                rr['rd'] = can.make(16)
            q[s].append(rr)
    return q


def sparse_qr(r, q, bp):
    """a record made only of fields that bp's hints exclude (nothing of it may reach the file, not even an empty item),
    sometimes with one enabled field added; never the members that have no hint bit"""
    fields = [f for f in q if f not in model.ALWAYS]
    excl = [f for f in fields if not model.filter_qr({f: q[f]}, bp)]
    incl = [f for f in fields if f not in excl]
    keep = r.sample(excl, r.randrange(1, len(excl) + 1)) if excl else []
    if incl and (not keep or r.random() < 0.4):
        keep.append(r.choice(incl))
    return {f: q[f] for f in keep}


def masks(tier, r, i):
    """hint masks: every single bit cleared / alone at least once, then random"""
    singles = []
    for b in range(18):
        singles.append((gen.ALL_QRH & ~(1 << b), gen.ALL_SIGH, 3, 3))
        singles.append((1 << b, gen.ALL_SIGH, 3, 3))
    for b in range(17):
        singles.append((gen.ALL_QRH, gen.ALL_SIGH & ~(1 << b), 3, 3))
        singles.append((1 << 4, 1 << b, 3, 3))
    for b in range(2):
        singles.append((gen.ALL_QRH, gen.ALL_SIGH, 3 & ~(1 << b), 3))
        singles.append((gen.ALL_QRH, gen.ALL_SIGH, 1 << b, 3))
        singles.append((gen.ALL_QRH, gen.ALL_SIGH, 3, 3 & ~(1 << b)))
        singles.append((0, 0, 0, 1 << b))
    singles += [(0, 0, 0, 0), (gen.ALL_QRH, gen.ALL_SIGH, 3, 3), (gen.ALL_QRH, 0, 3, 3), (gen.ALL_QRH, gen.ALL_SIGH, 0, 0)]
    if i < len(singles):
        return singles[i]
    return (r.getrandbits(18), r.getrandbits(17), r.getrandbits(2), r.getrandbits(2))


def make_cases(tier, seed):
    n = 1500 if tier == 'quick' else 12000
    cases, meta = [], []
    for i in range(n):
        r = gen.seeded(seed, 'C04', i)
        can = Canary(r)
        nb = 1 if i % 3 else 2
        tps = r.choice([1000, 10 ** 6])      # one rate for all sets of a case: record times are generated for it (normalised, < 2^63 ticks)
        bps = []
        for j in range(nb):
            qrh, sigh, rrh, oth = masks(tier, r, i if j == 0 else 10 ** 6)
            bps.append(gen.gen_bp(r, tps=tps, maxi=r.choice([1, 2, 5, 10000]), hints=(qrh, sigh, rrh, oth)))
        pre = {'major': 1, 'minor': 0, 'private': 1, 'bps': bps}
        c = {'id': 'c%05d' % i, 'preamble': pre, 'open': {'id': 'o0', 'kind': r.choice(['name', 'fd']), 'comp': 'none'}, 'ops': []}
        base = r.randrange(10 ** 9, 2 * 10 ** 9)
        P = gen.Pools(r)
        for k in range(r.choice([2, 4, 8])):
            x = r.random()
            if x < 0.6:
                q = full_qr(r, can, tps, base)
                if r.random() < 0.35:
                    q = sparse_qr(r, q, bps[0])
                c['ops'].append({'op': 'qr', 'r': q})
            elif x < 0.75:
                c['ops'].append({'op': 'aec', 'r': {'t': r.randrange(6), 'code': r.randrange(256), 'tf': r.randrange(64), 'ip': can.make(16)}})
            elif x < 0.9:
                c['ops'].append({'op': 'mm', 'r': {'ts': gen.gen_ts(r, tps, base), 'cip': can.make(16), 'cport': 99, 'sip': can.make(16), 'sport': 53, 'tf': 2, 'pl': can.make(30)}})
            elif x < 0.94:
                # a block the application configures itself (constructed, or moved / copied into place while still empty) and fills
                # through the generic, hint-applying add calls
                bi = r.randrange(nb)
                items = [{'k': 'qr', 'r': full_qr(r, can, tps, base)} for _ in range(r.choice([1, 2]))]
                if r.random() < 0.5:
                    items.append({'k': 'mm', 'r': {'ts': gen.gen_ts(r, tps, base), 'cip': can.make(16), 'cport': 7, 'pl': can.make(20)}})
                if r.random() < 0.5:
                    items.append({'k': 'aec', 'r': {'t': r.randrange(6), 'code': r.randrange(256), 'tf': r.randrange(64), 'ip': can.make(16)}})
                op = {'op': 'dblock', 'bp': bi, 'items': items}
                how = r.choice(['direct', 'movector', 'moveassign', 'copyctor', 'copyassign'])
                if how != 'direct':
                    op['how'] = how
                c['ops'].append(op)
            elif nb > 1:
                c['ops'].append({'op': 'setactive', 'idx': r.randrange(nb)})
                c['ops'].append({'op': 'wb'})
            else:
                c['ops'].append({'op': 'wb'})
            if i % 4 == 3 and k == 1:
                # hints edited in place through get_active_block_parameters_ref(), taken into use by a rotation
                qrh, sigh, rrh, oth = masks(tier, r, 10 ** 6)
                c['ops'] += [{'op': 'wb'}, {'op': 'edithints', 'qrh': qrh, 'sigh': sigh, 'rrh': rrh, 'oth': oth},
                             {'op': 'rotate', 'id': 'o1', 'export': True}]
        cases.append(c)
    return cases


def disabled_values(case):
    """(field path, hex value) of every byte-string field whose hint is off in the block it was submitted to"""
    m = model.ExporterModel(case['preamble'])
    out = []
    for i, op in enumerate(case['ops']):
        bp = m.block.bp
        qrh, sigh, rrh, oth = bp['qrh'], bp['sigh'], bp['rrh'], bp['oth']
        if op['op'] == 'qr':
            q = op['r']
            if 'cip' in q and not qrh >> 1 & 1: out.append(('qr.cip', q['cip'], 1))
            if 'sip' in q and not (qrh >> 4 & 1 and sigh >> 0 & 1): out.append(('sig.sip', q['sip'], 100))
            if 'optrd' in q and not (qrh >> 4 & 1 and sigh >> 15 & 1): out.append(('sig.optrd', q['optrd'], 115))
            if 'qname' in q and not qrh >> 7 & 1: out.append(('qr.qname', q['qname'], 7))
            if 'bail' in q and not qrh >> 10 & 1: out.append(('rpd.bail', q['bail'], 10))
            for s, bit in model.SECTION_BITS.items():
                on = qrh >> bit & 1
                for rr in q.get(s, []):
                    if not on:
                        out.append((s + '.name', rr['n'], bit))
                        if 'rd' in rr: out.append((s + '.rdata', rr['rd'], bit))
                    elif 'rd' in rr and not rrh >> 1 & 1:
                        out.append((s + '.rdata(rr-hint)', rr['rd'], 201))
        elif op['op'] == 'aec':
            if not oth >> 1 & 1: out.append(('aec.ip', op['r']['ip'], 301))
        elif op['op'] == 'mm':
            if not oth >> 0 & 1:
                for f in ('cip', 'sip', 'pl'):
                    out.append(('mm.' + f, op['r'][f], 300))
        m.apply(op, i)
    return out


def run(tier, seed):
    cases = make_cases(tier, seed)
    er = ExportRun(PROP, cases, 'c04', need_lib_read=False)
    try:
        vs = er.violations
        suppressed = {}
        canaries = 0
        bits_cleared = set()
        for pc in er.per_case:
            if pc is None:
                continue
            c = pc['case']
            vs += pipeline.judge_hints(PROP, c, pc['outs'], pc['docs'], pc['exp_out'])
            blob = b''.join(o.data for o in pc['outs'] if o.data)
            for path, hx, bit in disabled_values(c):
                canaries += 1
                suppressed[path] = suppressed.get(path, 0) + 1
                if bytes.fromhex(hx) in blob:
                    vs.append(Violation(PROP, '%s:disabled-value-in-file:%s' % (PROP, path.split('(')[0]), 'the value of %s (hint off) occurs in the output bytes' % path, {'case': c, 'value': hx}))
            for bp in c['preamble']['bps']:
                for b in range(18):
                    if not bp['qrh'] >> b & 1: bits_cleared.add('qr%d' % b)
                for b in range(17):
                    if not bp['sigh'] >> b & 1: bits_cleared.add('sig%d' % b)
                for b in range(2):
                    if not bp['rrh'] >> b & 1: bits_cleared.add('rr%d' % b)
                    if not bp['oth'] >> b & 1: bits_cleared.add('oth%d' % b)
        obs = dict(er.obs)
        obs.update(disabled_canary_values_searched=canaries, suppressed_by_field=suppressed, distinct_hint_bits_seen_cleared=len(bits_cleared))
        nt = er.nontrivial(lambda pc: len(pc['docs']) >= 1)
        cov = dict(evaluations=len(cases), distinct_nontrivial=nt,
                   rule='records with every optional field set (unique canary byte strings) under hint masks: each single bit cleared, each single bit alone, then random; '
                        'non-trivial = an output with >= 1 block was produced and parsed; oracle: member/hint table from RFC 8618 7.3.1.1.1, table reachability, canary byte search, preamble masks',
                   samples=[sample_of(c, 2) for c in cases[:2]], observed=obs)
        inc = None
        if len(bits_cleared) < 39:
            inc = 'only %d of 39 hint bits were observed cleared' % len(bits_cleared)
        return dict(violations=vs, coverage=cov, inconclusive=inc,
                    assumptions=['hint-applying (generic) calls only, on the exporter and on blocks the application configures itself; the low-level add_* calls taking ready-made items bypass hints by documented design'])
    finally:
        er.close()
