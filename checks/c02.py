"""C02 - every finished output is one well-formed, schema-valid C-DNS document (DESIGN 4/C02)."""
from vlib import gen, pipeline
from .common import ExportRun, sample_of

PROP, LEVEL = 'C02', 'exploration'


def make_cases(tier, seed):
    n = 1200 if tier == 'quick' else 10000
    cases = []
    for i in range(n):
        r = gen.seeded(seed, 'C02', i)
        style = i % 5
        kw = {}
        if style == 0:   # empties everywhere, many statistics
            kw = dict(stats_p=0.7, empties=True, weights=dict(dblock=12, rotate=8))
        elif style == 1:
            kw = dict(weights=dict(dblock=20, qr=30), nops=r.choice([5, 20, 60]))
        elif style == 2:
            kw = dict(weights=dict(rotate=15, wb=12), nops=r.choice([10, 40]))
        elif style == 3:
            kw = dict(big=True, nops=r.choice([30, 120]))
        cases.append(gen.gen_history(r, 'c%05d' % i, **kw))
    # argument values outside what a file can express exactly - the document must stay well formed all the same:
    #  (x) record times whose tick count does not fit 63 bits (far future at a fine tick rate, time_t(-1)),
    #  (z) parameter sets with ticks_per_second = 0 (no time offset can be computed).
    # Whether the library accepts, wraps or refuses such records is its choice (the model makes no prediction and exceptions are not judged);
    # what is judged: every closed output is empty or one valid document with at least one block - nothing half-written
    nx = 160 if tier == 'quick' else 1500
    for i in range(nx):
        r = gen.seeded(seed, 'C02x', i)
        c = gen.gen_history(r, 'x%05d' % i, nops=r.choice([6, 20, 50]), weights=dict(rotate=10, wb=10, dblock=8))
        for op in c['ops']:
            recs = [op['r']] if op['op'] in ('qr', 'mm') else [it['r'] for it in op.get('items', []) if it['k'] in ('qr', 'mm', 'rawqr', 'rawmm')]
            for rec in recs:
                if 'ts' in rec and r.random() < 0.6:
                    rec['ts'] = [min(2 ** 64 - 1, r.choice([2 ** 34, 2 ** 44, 2 ** 54, 2 ** 63, 2 ** 64 - 6, 9223372036, 18446744073, 2 ** 63 // 10 ** 6]) + r.randrange(0, 5)), rec['ts'][1]]
        c['tolerant'] = True
        cases.append(c)
    for i in range(nx):
        r = gen.seeded(seed, 'C02z', i)
        pre = gen.gen_preamble(r)
        for k, bp in enumerate(pre['bps']):
            if k == 0 or r.random() < 0.5:
                bp['tps'] = 0
        c = gen.gen_history(r, 'z%05d' % i, preamble=pre, nops=r.choice([6, 20, 50]), weights=dict(rotate=10, wb=10, dblock=8, setactive=10))
        c['tolerant'] = True
        cases.append(c)
    return cases


def run(tier, seed):
    cases = make_cases(tier, seed)
    # one write to one output is rejected (ENOSPC, once) in histories that write blocks to three outputs in turn: every OTHER
    # non-empty output - in particular the one a throwing rotate_output() has already switched to - must still be one document
    from . import c13
    fvs, fruns = c13.faulted_rotations(tier, seed, prop=PROP, names=('rot3',), tag='c02f')
    er = ExportRun(PROP, cases, 'c02', need_lib_read=False)
    try:
        empties = dict(stats=0, cp=0, sig=0, rpd=0, ext=0, mmd=0, rrlist=0)
        for c in cases:
            for op in c['ops']:
                if op.get('st') == {}:
                    empties['stats'] += 1
                if op['op'] == 'dblock':
                    for it in op['items']:
                        r = it['r']
                        if it.get('st') == {}: empties['stats'] += 1
                        if r.get('sig') == {}: empties['sig'] += 1
                        if r.get('rpd') == {}: empties['rpd'] += 1
                        if r.get('mmd') == {}: empties['mmd'] += 1
                        for e in ('qext', 'rext'):
                            if r.get(e) == {}: empties['ext'] += 1
                            elif e in r and any(v == [] for v in r[e].values()): empties['rrlist'] += 1
            for bp in c['preamble']['bps']:
                if bp.get('cp') == {}: empties['cp'] += 1
        obs = dict(er.obs)
        obs['present_but_empty_structures_submitted'] = empties
        obs['histories_with_one_rejected_write_whose_other_outputs_were_parsed'] = fruns
        obs['documents_parsed_strictly'] = sum(len(pc['docs']) for pc in er.per_case if pc)
        obs['histories_with_unrepresentable_record_times'] = sum(1 for c in cases if c['id'].startswith('x'))
        obs['api_calls_that_threw_in_those_and_in_tick_rate_0_histories'] = sum(1 for pc in er.per_case if pc and pc['case'].get('tolerant') for e in pc['res']['log'] if 'exc' in e)
        nt = er.nontrivial(lambda pc: len(pc['docs']) >= 1)
        cov = dict(evaluations=len(cases), distinct_nontrivial=nt,
                   rule='seeded exporter API histories (buffer_*/write_block/dblock/rotate/addbp/setactive/destroy, all compressions, name+fd); '
                        'non-trivial = at least one output with >= 1 block was closed and strictly parsed; distinct by SHA-256 of the case',
                   samples=[sample_of(c) for c in cases[:2]], observed=obs)
        return dict(violations=er.violations + fvs, coverage=cov,
                    assumptions=['independent strict CBOR/RFC 8618 parser in vlib/cbor.py + vlib/cdns_schema.py is the oracle',
                                 'array members declared [+ x] in the RFC CDDL are accepted when empty (the property does not demand one-or-more)'])
    finally:
        er.close()
