"""Shared execution pipeline for exporter histories: run the export driver, collect and decompress the outputs,
interpret them independently, read them back with the real reader, and the oracles ("judges") built on that."""
import json
import lzma
import os
import zlib

from . import cbor, cdns_schema, model, runner
from .findings import Violation


class StreamError(Exception):
    pass


def decompress(comp, raw):
    """independent decompression; exactly one complete stream, nothing after it"""
    if comp == 'none':
        return raw
    if comp == 'gzip':
        d = zlib.decompressobj(31)
        try:
            out = d.decompress(raw)
            out += d.flush()
        except zlib.error as e:
            raise StreamError('gzip: %s' % e)
        if not d.eof:
            raise StreamError('gzip: stream not terminated')
        if d.unused_data:
            raise StreamError('gzip: %d bytes after the end of the stream' % len(d.unused_data))
        return out
    if comp == 'xz':
        d = lzma.LZMADecompressor(format=lzma.FORMAT_XZ)
        try:
            out = d.decompress(raw)
        except lzma.LZMAError as e:
            raise StreamError('xz: %s' % e)
        if not d.eof:
            raise StreamError('xz: stream not terminated')
        if d.unused_data:
            raise StreamError('xz: %d bytes after the end of the stream' % len(d.unused_data))
        return out
    raise ValueError(comp)


def fnv64(b):
    h = 1469598103934665603
    for c in b:
        h = ((h ^ c) * 1099511628211) & 0xFFFFFFFFFFFFFFFF
    return h


class Output(object):
    pass


def collect_outputs(case, res, read_files=True):
    """-> list of Output in rotation order, built from the 'closed' snapshots of the result log"""
    outs = []
    comp = case['open']['comp']
    kind = case['open']['kind']
    for e in res['log']:
        if 'closed' not in e:
            continue
        if e['op'] == 'rotate' and 'exc' in e:
            # a failed rotation did not close anything the model knows about
            pass
        c = e['closed']
        o = Output()
        o.id, o.path, o.exists = c['id'], c['path'], c.get('exists', False)
        o.snap_size, o.snap_fnv = c.get('size'), c.get('fnv')
        o.part_exists = c.get('part_exists', False)
        o.closed_by = e['op']
        o.comp, o.kind = comp, kind
        o.raw = None
        o.data = None
        o.stream_error = None
        if read_files and o.exists:
            with open(o.path, 'rb') as f:
                o.raw = f.read()
            try:
                o.data = decompress(comp, o.raw)
            except StreamError as x:
                o.stream_error = str(x)
        outs.append(o)
    return outs


def run_histories(cases, tag, flavour='asan', env=None, timeout=900):
    results, crashes, wd = runner.run_cases(flavour, 'export', cases, tag, pre_args_fn=lambda w: [w], env=env, timeout=timeout)
    return results, crashes, wd


def read_back(files, tag, wd, flavour='asan', tables=False, render=False, stream='ifstream', dump='full'):
    """files: list of (id, bytes).  Writes them under wd and runs the real reader; returns {id: dump}, crashes"""
    jobs = []
    for fid, data in files:
        p = os.path.join(wd, 'rb_%s.cdns' % fid)
        with open(p, 'wb') as f:
            f.write(data)
        jobs.append({'id': fid, 'path': p, 'stream': stream, 'dump': dump, 'tables': tables, 'render': render})
    if not jobs:
        return {}, []
    results, crashes, wd2 = runner.run_cases(flavour, 'read', jobs, tag + '-rd')
    out = {r['id']: r for r in results.values()}
    runner.cleanup(wd2)
    return out, crashes


def crash_violations(prop, crashes, cases, what='export driver'):
    vs = []
    for c in crashes:
        if c.kind == 'hang':
            vs.append(Violation(prop, '%s:hang:%s' % (prop, what.replace(' ', '-')), 'process hung while running %s case' % what,
                                {'case': cases[c.case_index] if c.case_index < len(cases) else None, 'hang': True}))
        else:
            vs.append(Violation(prop, '%s:%s' % (prop, c.key_tail()), '%s in %s (%s)' % (c.cls, c.func, what),
                                {'case': cases[c.case_index] if c.case_index < len(cases) else None, 'report': c.excerpt}))
    return vs


def log_exceptions(prop, case, res, exp=None):
    vs = []
    for e in res['log']:
        i = e.get('i')
        if exp is not None and isinstance(i, int) and 0 <= i < len(exp) and e.get('phase', 'main') == 'main' and exp[i].get('throws') and e.get('op') in ('qr', 'mm', 'dblock'):
            # a record the library must refuse (timed record at tick rate 0)
            if 'exc' not in e:
                vs.append(Violation(prop, '%s:refusal-missing:%s' % (prop, e.get('op')), 'API call %s with a timed record at ticks_per_second = 0 did not throw' % e.get('op'), {'case': case, 'op_index': i}))
            continue
        if e.get('op') == 'rotate_bad':
            if e.get('exc') != 'CborOutputException':
                vs.append(Violation(prop, '%s:failed-rotation-not-reported' % prop, 'rotate_output to a destination that cannot be opened did not throw CborOutputException (%s)' % e.get('exc'), {'case': case, 'op_index': e.get('i')}))
            continue
        if 'exc' in e:
            vs.append(Violation(prop, '%s:unexpected-exception:%s:%s' % (prop, e.get('op'), e['exc']),
                                'API call %s threw %s (%s) in a fault-free history' % (e.get('op'), e['exc'], e.get('what', '')),
                                {'case': case, 'op_index': e.get('i')}))
    return vs


# ---------------------------------------------------------------------------------------------- judges

def judge_wellformed(prop, case, outs, exp_outputs):
    """C02: every closed output with >= 1 block is one schema-valid document; outputs without blocks are empty."""
    vs, docs = [], {}
    by_id = {o['id']: o for o in exp_outputs}
    for o in outs:
        exp = by_id.get(o.id)
        nblocks = len(exp['blocks']) if exp else None
        if exp is not None and exp.get('void'):
            continue            # "output" between a rotation that could not open its destination and the next rotation
        if not o.exists:
            vs.append(Violation(prop, '%s:output-missing:%s:%s' % (prop, o.kind, o.comp), 'closed output %s does not exist under its final name' % o.id, {'case': case, 'output': o.id}))
            continue
        if o.stream_error:
            vs.append(Violation(prop, '%s:stream:%s' % (prop, o.comp), 'output %s: %s' % (o.id, o.stream_error), {'case': case, 'output': o.id}))
            continue
        if nblocks == 0:
            if len(o.data) != 0:
                vs.append(Violation(prop, '%s:data-in-blockless-output' % prop, 'output %s got %d uncompressed bytes although no block was written to it' % (o.id, len(o.data)), {'case': case, 'output': o.id}))
            continue
        try:
            docs[o.id] = cdns_schema.parse(o.data)
        except cbor.CborError as x:
            vs.append(Violation(prop, '%s:malformed-cbor:%s' % (prop, x.msg.split(':')[0].split(' (')[0][:40]), 'output %s is not one well-formed CBOR item: %s' % (o.id, x), {'case': case, 'output': o.id, 'hex_head': o.data[:64].hex()}))
        except cdns_schema.SchemaError as x:
            vs.append(Violation(prop, '%s:schema:%s' % (prop, x.kind), 'output %s violates the RFC 8618 schema: %s' % (o.id, x), {'case': case, 'output': o.id}))
    return vs, docs


def judge_wellformed_modelfree(prop, case, outs):
    """C02 for histories whose outcome the model does not predict (argument values a library may accept or refuse): every closed
    output is either empty or one schema-valid document with at least one block"""
    vs, docs = [], {}
    for o in outs:
        if not o.exists:
            continue        # a call that threw may not have switched outputs: which files must exist is not predicted here
        if o.stream_error:
            vs.append(Violation(prop, '%s:stream:%s' % (prop, o.comp), 'output %s: %s' % (o.id, o.stream_error), {'case': case, 'output': o.id}))
            continue
        if not o.data:
            continue
        try:
            docs[o.id] = cdns_schema.parse(o.data)
            if not docs[o.id].blocks:
                vs.append(Violation(prop, '%s:data-in-blockless-output' % prop, 'output %s got %d uncompressed bytes although it holds no block' % (o.id, len(o.data)), {'case': case, 'output': o.id}))
        except cbor.CborError as x:
            vs.append(Violation(prop, '%s:malformed-cbor:%s' % (prop, x.msg.split(':')[0].split(' (')[0][:40]), 'output %s is not one well-formed CBOR item: %s' % (o.id, x), {'case': case, 'output': o.id, 'hex_head': o.data[:64].hex()}))
        except cdns_schema.SchemaError as x:
            vs.append(Violation(prop, '%s:schema:%s' % (prop, x.kind), 'output %s violates the RFC 8618 schema: %s' % (o.id, x), {'case': case, 'output': o.id}))
    return vs, docs


def _cmp_blocks(prop, oracle, case, oid, exp_blocks, got_blocks, vs):
    if len(exp_blocks) != len(got_blocks):
        vs.append(Violation(prop, '%s:%s:block-count' % (prop, oracle), 'output %s: expected %d blocks, %s sees %d' % (oid, len(exp_blocks), oracle, len(got_blocks)), {'case': case, 'output': oid}))
        return
    for bi, (e, g) in enumerate(zip(exp_blocks, got_blocks)):
        g = model.canon_block(g)
        for part in ('bpi', 'qr', 'mm', 'aec', 'stats'):
            if e[part] != g[part]:
                detail = ''
                if part in ('qr', 'mm') and len(e[part]) == len(g[part]):
                    for ri, (a, b) in enumerate(zip(e[part], g[part])):
                        if a != b:
                            keys = sorted(k for k in set(a) | set(b) if a.get(k) != b.get(k))
                            detail = ' record %d differs in %s' % (ri, ','.join(keys))
                            vs.append(Violation(prop, '%s:%s:%s:%s' % (prop, oracle, part, '+'.join(keys)[:60]),
                                                'output %s block %d %s:%s (expected %r, got %r)' % (oid, bi, part, detail, {k: a.get(k) for k in keys}, {k: b.get(k) for k in keys}),
                                                {'case': case, 'output': oid, 'block': bi}))
                            break
                    continue
                vs.append(Violation(prop, '%s:%s:%s' % (prop, oracle, part), 'output %s block %d: %s differs (expected %s, got %s)' % (oid, bi, part, json.dumps(e[part])[:300], json.dumps(g[part])[:300]),
                                    {'case': case, 'output': oid, 'block': bi}))


def judge_roundtrip(prop, case, outs, exp_outputs, docs, dumps):
    """C01/C13: model == independent interpretation == library read-back, per output and block"""
    vs = []
    by_id = {o['id']: o for o in exp_outputs}
    for o in outs:
        exp = by_id.get(o.id)
        if exp is None or not exp['blocks']:
            continue
        eb = [b.as_expected() for b in exp['blocks']]
        if o.id in docs:
            _cmp_blocks(prop, 'independent-reader', case, o.id, eb, docs[o.id].blocks, vs)
        d = dumps.get(case['id'] + '/' + o.id)
        if d is not None:
            if d.get('hdr') != 'ok' or d.get('end') != 'eof':
                vs.append(Violation(prop, '%s:library-reader:failed' % prop, 'CdnsReader could not read output %s back: hdr=%s end=%s' % (o.id, d.get('hdr'), d.get('end')), {'case': case, 'output': o.id}))
            else:
                _cmp_blocks(prop, 'library-reader', case, o.id, eb, d['blocks'], vs)
                if d.get('reuse_differs'):
                    vs.append(Violation(prop, '%s:library-reader:reused-block-object' % prop,
                                        'output %s: a CdnsBlockRead object that block %s was assigned to (after earlier blocks) returns other records than a fresh object: %s'
                                        % (o.id, d['reuse_differs'].get('block'), d['reuse_differs'].get('what', 'content differs')), {'case': case, 'output': o.id}))
    return vs


def judge_bytecounts(prop, case, res, outs):
    """C10: sum of returned byte counts per output == uncompressed size (+1 closing break at destruction)"""
    vs = []
    sums, cur = {}, case['open']['id']
    sums[cur] = 0
    blocks_at_destroy = 0
    for e in res['log']:
        if e['op'] in ('qr', 'aec', 'mm', 'wb', 'dblock'):
            if 'ret' in e:
                sums[cur] += e['ret']
        elif e['op'] == 'rotate':
            if 'ret' in e:
                sums[cur] += e['ret']
                cur = e['opens']
                sums[cur] = 0
        elif e['op'] == 'destroy':
            blocks_at_destroy = e['blocks_before']
    for o in outs:
        if o.data is None:
            continue
        expect = sums.get(o.id, 0) + (1 if (o.closed_by == 'destroy' and blocks_at_destroy > 0) else 0)
        if expect != len(o.data):
            vs.append(Violation(prop, '%s:sum-mismatch:%s' % (prop, o.closed_by), 'output %s: calls reported %d bytes, uncompressed output has %d' % (o.id, expect, len(o.data)), {'case': case, 'output': o.id}))
    return vs


def judge_flush(prop, case, res, exp, exp_outputs, docs):
    """C12: per call: non-zero return iff a block was written; counters; block sizes; non-empty blocks"""
    vs = []
    ops = case['ops']
    for e in res['log']:
        i = e.get('i')
        if i is None or i < 0 or i >= len(ops) or 'exc' in e:
            continue
        x = exp[i]
        op = ops[i]['op']
        if op in ('qr', 'aec', 'mm', 'wb', 'dblock', 'rotate'):
            if (e.get('ret', 0) != 0) != x['wrote']:
                vs.append(Violation(prop, '%s:return-vs-flush:%s' % (prop, op), 'op %d %s returned %s but the model says a block was%s written' % (i, op, e.get('ret'), '' if x['wrote'] else ' not'), {'case': case, 'op_index': i}))
        elif op == 'counters':
            for k in ('items', 'qr', 'aec', 'mm', 'blocks', 'active'):
                if e.get(k) != x[k]:
                    vs.append(Violation(prop, '%s:counter:%s' % (prop, k), 'op %d counters: %s is %s, model says %s' % (i, k, e.get(k), x[k]), {'case': case, 'op_index': i}))
        elif op in ('setactive', 'addbp'):
            if e.get('ret') != x['ret']:
                vs.append(Violation(prop, '%s:%s-return' % (prop, op), 'op %d %s returned %s, expected %s' % (i, op, e.get('ret'), x['ret']), {'case': case, 'op_index': i}))
    bps_all = list(case['preamble']['bps']) + [o['bp'] for o in ops if o['op'] == 'addbp']
    for o in exp_outputs:
        d = docs.get(o['id'])
        if d is None:
            continue
        direct = 0
        for bi, b in enumerate(d.blocks):
            n = b['counts']
            if n[3] == 0:
                vs.append(Violation(prop, '%s:empty-block' % prop, 'output %s block %d is empty' % (o['id'], bi), {'case': case, 'output': o['id']}))
            # size limit only for blocks built by the exporter itself (direct blocks are the caller's business)
            if bi < len(o['blocks']) and getattr(o['blocks'][bi], 'src', None):
                mx = max(1, bps_all[b['bpi'] or 0]['max'])
                if max(n[0], n[1], n[2]) > mx:
                    vs.append(Violation(prop, '%s:block-exceeds-max' % prop, 'output %s block %d has arrays %s but max_block_items is %d' % (o['id'], bi, n[:3], mx), {'case': case, 'output': o['id']}))
    return vs


def judge_hints(prop, case, outs, docs, exp_outputs=None):
    """C04: no member whose hint bit is clear, every table entry reachable, preamble masks as configured, canaries absent"""
    vs = []
    S = cdns_schema
    ops = case['ops']
    bps_all = list(case['preamble']['bps']) + [o['bp'] for o in ops if o['op'] == 'addbp']
    exp_by_id = {o['id']: o for o in (exp_outputs or [])}
    for o in outs:
        d = docs.get(o.id)
        if d is None:
            continue
        eo = exp_by_id.get(o.id)
        hdr = (eo or {}).get('bps_header') or bps_all
        for i, bp in enumerate(d.preamble['bps']):
            if i >= len(hdr):
                break
            want = hdr[i]
            for k in ('qrh', 'sigh', 'rrh', 'oth'):
                if bp[k] != want[k]:
                    vs.append(Violation(prop, '%s:preamble-mask:%s' % (prop, k), 'output %s preamble set %d states %s=%#x, configured %#x' % (o.id, i, k, bp[k], want[k]), {'case': case, 'output': o.id}))
        for bi, raw in enumerate(d.blocks_raw):
            bp = bps_all[raw['preamble'].get('bpi', 0)]
            if eo and len(eo['blocks']) == len(d.blocks_raw) and eo['blocks'][bi].bp is not None:
                bp = eo['blocks'][bi].bp          # the parameters this very block was armed with
            qrh, sigh, rrh, oth = bp['qrh'], bp['sigh'], bp['rrh'], bp['oth']
            for qi, q in enumerate(raw.get('qr', [])):
                for bit, members in S.QR_HINT_MEMBERS.items():
                    for m in members:
                        if m in q and not qrh >> bit & 1:
                            vs.append(Violation(prop, '%s:member-despite-hint:qr.%s' % (prop, m), 'output %s block %d qr %d carries %s although query-response hint bit %d is clear' % (o.id, bi, qi, m, bit), {'case': case, 'output': o.id}))
                for bit, pairs in S.QR_HINT_EXT.items():
                    for ext, m in pairs:
                        if ext in q and m in q[ext] and not qrh >> bit & 1:
                            vs.append(Violation(prop, '%s:member-despite-hint:%s.%s' % (prop, ext, m), 'output %s block %d qr %d carries %s.%s although hint bit %d is clear' % (o.id, bi, qi, ext, m, bit), {'case': case, 'output': o.id}))
            t = raw.get('tables', {})
            for si, s in enumerate(t.get('sig', [])):
                for bit, m in S.SIG_HINT_MEMBERS.items():
                    if m in s and not sigh >> bit & 1:
                        vs.append(Violation(prop, '%s:member-despite-hint:sig.%s' % (prop, m), 'output %s block %d signature %d carries %s although signature hint bit %d is clear' % (o.id, bi, si, m, bit), {'case': case, 'output': o.id}))
            for ri, r in enumerate(t.get('rr', [])):
                for bit, m in S.RR_HINT_MEMBERS.items():
                    if m in r and not rrh >> bit & 1:
                        vs.append(Violation(prop, '%s:member-despite-hint:rr.%s' % (prop, m), 'output %s block %d rr %d carries %s although rr hint bit %d is clear' % (o.id, bi, ri, m, bit), {'case': case, 'output': o.id}))
            for bit, arr in S.OTHER_HINT_ARRAYS.items():
                if raw.get(arr) and not oth >> bit & 1:
                    vs.append(Violation(prop, '%s:array-despite-hint:%s' % (prop, arr), 'output %s block %d stores %s although other-data hint bit %d is clear' % (o.id, bi, arr, bit), {'case': case, 'output': o.id}))
            reach = S.reachability(raw)
            for tb in S.TABLES:
                n = len(t.get(tb, []))
                un = [i for i in range(n) if i not in reach[tb]]
                if un:
                    vs.append(Violation(prop, '%s:unreachable-table-entry:%s' % (prop, tb), 'output %s block %d: %s table entries %s are referenced by nothing' % (o.id, bi, tb, un[:5]), {'case': case, 'output': o.id}))
    return vs


def judge_tables(prop, case, outs, docs):
    """C11 (output side): no table holds two equal entries; closure is part of schema parse; reachability"""
    vs = []
    for o in outs:
        d = docs.get(o.id)
        if d is None:
            continue
        for bi, raw in enumerate(d.blocks_raw):
            t = raw.get('tables', {})
            for tb in cdns_schema.TABLES:
                seen = {}
                for i, e in enumerate(t.get(tb, [])):
                    k = json.dumps(e, sort_keys=True, default=lambda b: b.hex())
                    if k in seen:
                        vs.append(Violation(prop, '%s:duplicate-table-entry:%s' % (prop, tb), 'output %s block %d: %s table entries %d and %d are equal' % (o.id, bi, tb, seen[k], i), {'case': case, 'output': o.id}))
                        break
                    seen[k] = i
            reach = cdns_schema.reachability(raw)
            for tb in cdns_schema.TABLES:
                n = len(t.get(tb, []))
                un = [i for i in range(n) if i not in reach[tb]]
                if un:
                    vs.append(Violation(prop, '%s:unreachable-table-entry:%s' % (prop, tb), 'output %s block %d: %s table entries %s referenced by nothing (left over from an earlier block?)' % (o.id, bi, tb, un[:5]), {'case': case, 'output': o.id}))
    return vs


def judge_times(prop, case, outs, docs):
    """C17 (block side): earliest <= every stored time, i.e. all offsets non-negative is implied by uint typing;
    check that earliest is not later than any record time and that a timed block's earliest equals its minimum
    when a record's time was stored"""
    vs = []
    for o in outs:
        d = docs.get(o.id)
        if d is None:
            continue
        for bi, b in enumerate(d.blocks):
            e = b['earliest']
            for kind in ('qr', 'mm'):
                for r in b[kind]:
                    if 'ts' in r and (r['ts'][0], r['ts'][1]) < (e[0], e[1]):
                        vs.append(Violation(prop, '%s:record-before-earliest' % prop, 'output %s block %d: record time %s precedes earliest %s' % (o.id, bi, r['ts'], e), {'case': case, 'output': o.id}))
    return vs


def judge_rotation(prop, case, res, outs, exp_outputs, docs):
    """C13: every output closed by rotation is complete by itself and receives no further bytes afterwards"""
    vs = []
    void = {x['id'] for x in exp_outputs if x.get('void')}
    for o in outs:
        if not o.exists or o.id in void:
            continue
        if o.raw is not None and (o.snap_size != len(o.raw) or o.snap_fnv != fnv64(o.raw)) and len(o.raw) < 4000000:
            vs.append(Violation(prop, '%s:bytes-after-close:%s' % (prop, o.closed_by), 'output %s changed after the call that closed it (size %s -> %d)' % (o.id, o.snap_size, len(o.raw)), {'case': case, 'output': o.id}))
        if o.kind == 'name' and o.part_exists:
            vs.append(Violation(prop, '%s:part-left-behind' % prop, 'output %s: .part file still exists after close' % o.id, {'case': case, 'output': o.id}))
    # preamble must hold every parameter set its blocks refer to: covered by schema index closure (judge_wellformed)
    # the number of outputs must match
    exp_ids = [o['id'] for o in exp_outputs]
    got_ids = [o.id for o in outs]
    if exp_ids != got_ids:
        vs.append(Violation(prop, '%s:output-sequence' % prop, 'outputs closed %s, expected %s' % (got_ids, exp_ids), {'case': case}))
    return vs
