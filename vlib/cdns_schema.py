"""RFC 8618 schema validator and interpreter, typed in from the RFC (section 7 and the CDDL in appendix A) -
deliberately NOT derived from the library's format_specification.h.  The three negative Q/R keys (-1 asn,
-2 country code, -3 round trip time) are the library's documented private extension.

validate(data)   -> Doc   (raises SchemaError / cbor.CborError with a stable .kind for findings keys)
Doc.preamble / Doc.blocks use the same JSON shape as the read driver's canonical dump, so comparisons are
plain equality.
"""
from . import cbor
from .cbor import UINT, NEG, BSTR, TSTR, ARRAY, MAP, TAG, SIMPLE


class SchemaError(Exception):
    def __init__(self, kind, msg, offset=None):
        Exception.__init__(self, '%s: %s%s' % (kind, msg, '' if offset is None else ' at offset %d' % offset))
        self.kind = kind
        self.offset = offset


# type specs: 'uint' 'int' 'bstr' 'tstr' 'bool' 'ts' ('map',NAME) ('arr',spec)
MAPS = {
    'FilePreamble': {0: ('major', 'uint', True), 1: ('minor', 'uint', True), 2: ('private', 'uint', False),
                     3: ('bps', ('arr', ('map', 'BlockParameters')), True)},
    'BlockParameters': {0: ('sp', ('map', 'StorageParameters'), True), 1: ('cp', ('map', 'CollectionParameters'), False)},
    'StorageParameters': {0: ('tps', 'uint', True), 1: ('max', 'uint', True), 2: ('hints', ('map', 'StorageHints'), True),
                          3: ('opcodes', ('arr', 'uint'), True), 4: ('rrtypes', ('arr', 'uint'), True),
                          5: ('sflags', 'uint', False), 6: ('cp4', 'uint', False), 7: ('cp6', 'uint', False),
                          8: ('sp4', 'uint', False), 9: ('sp6', 'uint', False), 10: ('samp', 'tstr', False),
                          11: ('anon', 'tstr', False)},
    'StorageHints': {0: ('qrh', 'uint', True), 1: ('sigh', 'uint', True), 2: ('rrh', 'uint', True), 3: ('oth', 'uint', True)},
    'CollectionParameters': {0: ('qto', 'uint', False), 1: ('sto', 'uint', False), 2: ('snap', 'uint', False),
                             3: ('promisc', 'bool', False), 4: ('ifs', ('arr', 'tstr'), False),
                             5: ('saddr', ('arr', 'bstr'), False), 6: ('vlan', ('arr', 'uint'), False),
                             7: ('filter', 'tstr', False), 8: ('gen', 'tstr', False), 9: ('host', 'tstr', False)},
    'Block': {0: ('preamble', ('map', 'BlockPreamble'), True), 1: ('stats', ('map', 'BlockStatistics'), False),
              2: ('tables', ('map', 'BlockTables'), False), 3: ('qr', ('arr', ('map', 'QueryResponse')), False),
              4: ('aec', ('arr', ('map', 'AddressEventCount')), False), 5: ('mm', ('arr', ('map', 'MalformedMessage')), False)},
    'BlockPreamble': {0: ('earliest', 'ts', False), 1: ('bpi', 'uint', False)},
    'BlockStatistics': {0: ('pm', 'uint', False), 1: ('qr', 'uint', False), 2: ('uq', 'uint', False),
                        3: ('ur', 'uint', False), 4: ('do', 'uint', False), 5: ('mi', 'uint', False)},
    'BlockTables': {0: ('ip', ('arr', 'bstr'), False), 1: ('ct', ('arr', ('map', 'ClassType')), False),
                    2: ('nr', ('arr', 'bstr'), False), 3: ('sig', ('arr', ('map', 'QRSignature')), False),
                    4: ('qlist', ('arr', ('arr', 'uint')), False), 5: ('qrr', ('arr', ('map', 'Question')), False),
                    6: ('rrlist', ('arr', ('arr', 'uint')), False), 7: ('rr', ('arr', ('map', 'RR')), False),
                    8: ('mmd', ('arr', ('map', 'MMData')), False)},
    'ClassType': {0: ('t', 'uint', True), 1: ('c', 'uint', True)},
    'QRSignature': {0: ('sai', 'uint', False), 1: ('sport', 'uint', False), 2: ('tflags', 'uint', False),
                    3: ('qtype', 'uint', False), 4: ('sigflags', 'uint', False), 5: ('opcode', 'uint', False),
                    6: ('dnsflags', 'uint', False), 7: ('qrcode', 'uint', False), 8: ('qcti', 'uint', False),
                    9: ('qd', 'uint', False), 10: ('an', 'uint', False), 11: ('ns', 'uint', False),
                    12: ('ar', 'uint', False), 13: ('edns', 'uint', False), 14: ('udp', 'uint', False),
                    15: ('optrdi', 'uint', False), 16: ('rrcode', 'uint', False)},
    'Question': {0: ('n', 'uint', True), 1: ('c', 'uint', True)},
    'RR': {0: ('n', 'uint', True), 1: ('c', 'uint', True), 2: ('ttl', 'uint', False), 3: ('rdi', 'uint', False)},
    'MMData': {0: ('sai', 'uint', False), 1: ('sport', 'uint', False), 2: ('tf', 'uint', False), 3: ('pl', 'bstr', False)},
    'QueryResponse': {0: ('toff', 'uint', False), 1: ('cai', 'uint', False), 2: ('cport', 'uint', False),
                      3: ('tid', 'uint', False), 4: ('sigi', 'uint', False), 5: ('hop', 'uint', False),
                      6: ('delay', 'int', False), 7: ('qni', 'uint', False), 8: ('qsize', 'uint', False),
                      9: ('rsize', 'uint', False), 10: ('rpd', ('map', 'RPD'), False),
                      11: ('qext', ('map', 'QRExtended'), False), 12: ('rext', ('map', 'QRExtended'), False),
                      -1: ('asn', 'tstr', False), -2: ('cc', 'tstr', False), -3: ('rtt', 'int', False)},
    'RPD': {0: ('bi', 'uint', False), 1: ('pflags', 'uint', False)},
    'QRExtended': {0: ('q', 'uint', False), 1: ('an', 'uint', False), 2: ('au', 'uint', False), 3: ('ad', 'uint', False)},
    'AddressEventCount': {0: ('t', 'uint', True), 1: ('code', 'uint', False), 2: ('ai', 'uint', True),
                          3: ('tf', 'uint', False), 4: ('cnt', 'uint', True)},
    'MalformedMessage': {0: ('toff', 'uint', False), 1: ('cai', 'uint', False), 2: ('cport', 'uint', False),
                         3: ('mdi', 'uint', False)},
}

# hint bit -> member name, per RFC 8618 section 7.3.1.1.1 (bit numbers)
QR_HINT_MEMBERS = {0: ['toff'], 1: ['cai'], 2: ['cport'], 3: ['tid'], 4: ['sigi'], 5: ['hop'], 6: ['delay'], 7: ['qni'],
                   8: ['qsize'], 9: ['rsize'], 10: ['rpd']}
# bits 11..17 concern members of the extended maps: (which map, member)
QR_HINT_EXT = {11: [('qext', 'q'), ('rext', 'q')], 12: [('qext', 'an')], 13: [('qext', 'au')], 14: [('qext', 'ad')],
               15: [('rext', 'an')], 16: [('rext', 'au')], 17: [('rext', 'ad')]}
SIG_HINT_MEMBERS = {0: 'sai', 1: 'sport', 2: 'tflags', 3: 'qtype', 4: 'sigflags', 5: 'opcode', 6: 'dnsflags', 7: 'qrcode',
                    8: 'qcti', 9: 'qd', 10: 'an', 11: 'ns', 12: 'ar', 13: 'edns', 14: 'udp', 15: 'optrdi', 16: 'rrcode'}
RR_HINT_MEMBERS = {0: 'ttl', 1: 'rdi'}
OTHER_HINT_ARRAYS = {0: 'mm', 1: 'aec'}


def _check(node, spec, path):
    """type-check one value, return python representation (maps -> dict name->value, + '_unknown' count)"""
    if spec == 'uint':
        if node.major != UINT:
            raise SchemaError('type', '%s: expected uint, got major %d' % (path, node.major), node.start)
        return node.value
    if spec == 'int':
        if node.major not in (UINT, NEG):
            raise SchemaError('type', '%s: expected int, got major %d' % (path, node.major), node.start)
        return node.value
    if spec == 'bstr':
        if node.major != BSTR:
            raise SchemaError('type', '%s: expected bstr, got major %d' % (path, node.major), node.start)
        return node.value
    if spec == 'tstr':
        if node.major != TSTR:
            raise SchemaError('type', '%s: expected tstr, got major %d' % (path, node.major), node.start)
        return node.value
    if spec == 'bool':
        if node.major != SIMPLE or node.value not in (('simple', 20), ('simple', 21)):
            raise SchemaError('type', '%s: expected bool' % path, node.start)
        return node.value[1] == 21
    if spec == 'ts':
        if node.major != ARRAY or len(node.value) != 2 or any(c.major != UINT for c in node.value):
            raise SchemaError('type', '%s: expected [secs, ticks]' % path, node.start)
        return [node.value[0].value, node.value[1].value]
    if spec[0] == 'arr':
        if node.major != ARRAY:
            raise SchemaError('type', '%s: expected array, got major %d' % (path, node.major), node.start)
        return [_check(c, spec[1], '%s[%d]' % (path, i)) for i, c in enumerate(node.value)]
    if spec[0] == 'map':
        return _check_map(node, spec[1], path)
    raise AssertionError(spec)


def _check_map(node, name, path):
    if node.major != MAP:
        raise SchemaError('type', '%s: expected map %s, got major %d' % (path, name, node.major), node.start)
    node.ann = name
    table = MAPS[name]
    out = {}
    unknown = 0
    seen = set()
    for k, v in node.value:
        if k.major not in (UINT, NEG):
            raise SchemaError('key', '%s: non-integer map key in %s' % (path, name), k.start)
        if k.value in seen:
            raise SchemaError('dupkey', '%s: duplicate key %d in %s' % (path, k.value, name), k.start)
        seen.add(k.value)
        ent = table.get(k.value)
        if ent is None:
            unknown += 1
            continue
        out[ent[0]] = _check(v, ent[1], '%s.%s' % (path, ent[0]))
    for key, ent in table.items():
        if ent[2] and ent[0] not in out:
            raise SchemaError('mandatory', '%s: %s lacks mandatory member %s' % (path, name, ent[0]), node.start)
    if unknown:
        out['_unknown'] = unknown
    return out


class Doc(object):
    pass


def _hx(b):
    return b.hex()


def _bp_json(bp):
    sp = bp['sp']
    j = {'tps': sp['tps'], 'max': sp['max'], 'qrh': sp['hints']['qrh'], 'sigh': sp['hints']['sigh'],
         'rrh': sp['hints']['rrh'], 'oth': sp['hints']['oth'], 'opcodes': sp['opcodes'], 'rrtypes': sp['rrtypes']}
    for k in ('sflags', 'cp4', 'cp6', 'sp4', 'sp6'):
        if k in sp:
            j[k] = sp[k]
    for k in ('samp', 'anon'):
        if k in sp:
            j[k] = _hx(sp[k])
    if 'cp' in bp:
        cp = bp['cp']
        c = {}
        for k in ('qto', 'sto', 'snap', 'promisc'):
            if k in cp:
                c[k] = cp[k]
        for k in ('ifs', 'saddr'):
            if cp.get(k):
                c[k] = [_hx(x) for x in cp[k]]
        if cp.get('vlan'):
            c['vlan'] = cp['vlan']
        for k in ('filter', 'gen', 'host'):
            if k in cp:
                c[k] = _hx(cp[k])
        j['cp'] = c
    return j


def parse(data, allow_trailing=False):
    """strict parse + schema check of a whole file; returns Doc"""
    if allow_trailing:
        root, _ = cbor.decode_prefix(data, 0)
    else:
        root = cbor.decode_one(data)
    return from_tree(root)


def from_tree(root):
    if root.major != ARRAY or len(root.value) != 3:
        raise SchemaError('file', 'file is not a 3-element array', root.start)
    tid, pre, blocks = root.value
    if tid.major != TSTR or tid.value != b'C-DNS':
        raise SchemaError('file', 'file type id is not the text string "C-DNS"', tid.start)
    d = Doc()
    d.root = root
    d.pre_raw = _check_map(pre, 'FilePreamble', 'preamble')
    if not d.pre_raw['bps']:
        raise SchemaError('mandatory', 'preamble has no block parameters', pre.start)
    d.preamble = {'major': d.pre_raw['major'], 'minor': d.pre_raw['minor'], 'private': d.pre_raw.get('private'),
                  'bps': [_bp_json(b) for b in d.pre_raw['bps']]}
    if blocks.major != ARRAY:
        raise SchemaError('file', 'file blocks is not an array', blocks.start)
    d.blocks_node = blocks
    d.blocks_raw = []
    d.block_spans = []
    for i, b in enumerate(blocks.value):
        raw = _check_map(b, 'Block', 'block[%d]' % i)
        _closure(raw, i, len(d.preamble['bps']), b.start)
        d.blocks_raw.append(raw)
        d.block_spans.append((b.start, b.end))
    d.blocks = [interpret_block(raw, d.preamble['bps']) for raw in d.blocks_raw]
    return d


TABLES = ('ip', 'ct', 'nr', 'sig', 'qlist', 'qrr', 'rrlist', 'rr', 'mmd')


def _closure(b, bi, nbps, off):
    t = b.get('tables', {})
    size = {k: len(t.get(k, [])) for k in TABLES}

    def need(table, idx, what):
        if idx >= size[table]:
            raise SchemaError('index', 'block[%d]: %s = %d but table %s has %d entries' % (bi, what, idx, table, size[table]), off)
    if 'earliest' not in b['preamble'] and any('toff' in x for x in b.get('qr', []) + b.get('mm', [])):
        # RFC 8618 7.3.1: earliest-time is mandatory unless all items of the block omit their time offset
        raise SchemaError('mandatory', 'block[%d]: BlockPreamble lacks earliest-time although items carry time offsets' % bi, off)
    bpi = b['preamble'].get('bpi', 0)
    if bpi >= nbps:
        raise SchemaError('index', 'block[%d]: block_parameters_index %d but preamble has %d sets' % (bi, bpi, nbps), off)
    for i, q in enumerate(b.get('qr', [])):
        p = 'qr[%d]' % i
        if 'cai' in q: need('ip', q['cai'], p + '.client_address_index')
        if 'sigi' in q: need('sig', q['sigi'], p + '.qr_signature_index')
        if 'qni' in q: need('nr', q['qni'], p + '.query_name_index')
        if 'rpd' in q and 'bi' in q['rpd']: need('nr', q['rpd']['bi'], p + '.bailiwick_index')
        for e in ('qext', 'rext'):
            if e in q:
                if 'q' in q[e]: need('qlist', q[e]['q'], p + '.' + e + '.question_index')
                for s in ('an', 'au', 'ad'):
                    if s in q[e]: need('rrlist', q[e][s], p + '.' + e + '.' + s)
    for i, s in enumerate(t.get('sig', [])):
        if 'sai' in s: need('ip', s['sai'], 'sig[%d].server_address_index' % i)
        if 'qcti' in s: need('ct', s['qcti'], 'sig[%d].query_classtype_index' % i)
        if 'optrdi' in s: need('nr', s['optrdi'], 'sig[%d].query_opt_rdata_index' % i)
    for i, l in enumerate(t.get('qlist', [])):
        for x in l: need('qrr', x, 'qlist[%d]' % i)
    for i, l in enumerate(t.get('rrlist', [])):
        for x in l: need('rr', x, 'rrlist[%d]' % i)
    for i, q in enumerate(t.get('qrr', [])):
        need('nr', q['n'], 'qrr[%d].name_index' % i); need('ct', q['c'], 'qrr[%d].classtype_index' % i)
    for i, r in enumerate(t.get('rr', [])):
        need('nr', r['n'], 'rr[%d].name_index' % i); need('ct', r['c'], 'rr[%d].classtype_index' % i)
        if 'rdi' in r: need('nr', r['rdi'], 'rr[%d].rdata_index' % i)
    for i, a in enumerate(b.get('aec', [])):
        need('ip', a['ai'], 'aec[%d].ae_address_index' % i)
    for i, m in enumerate(b.get('mm', [])):
        if 'cai' in m: need('ip', m['cai'], 'mm[%d].client_address_index' % i)
        if 'mdi' in m: need('mmd', m['mdi'], 'mm[%d].message_data_index' % i)
    for i, m in enumerate(t.get('mmd', [])):
        if 'sai' in m: need('ip', m['sai'], 'mmd[%d].server_address_index' % i)


def reachability(b):
    """per table: set of indices reachable from the block's items (C04/C11)"""
    t = b.get('tables', {})
    reach = {k: set() for k in TABLES}
    for q in b.get('qr', []):
        if 'cai' in q: reach['ip'].add(q['cai'])
        if 'sigi' in q: reach['sig'].add(q['sigi'])
        if 'qni' in q: reach['nr'].add(q['qni'])
        if 'rpd' in q and 'bi' in q['rpd']: reach['nr'].add(q['rpd']['bi'])
        for e in ('qext', 'rext'):
            if e in q:
                if 'q' in q[e]: reach['qlist'].add(q[e]['q'])
                for s in ('an', 'au', 'ad'):
                    if s in q[e]: reach['rrlist'].add(q[e][s])
    for a in b.get('aec', []):
        reach['ip'].add(a['ai'])
    for m in b.get('mm', []):
        if 'cai' in m: reach['ip'].add(m['cai'])
        if 'mdi' in m: reach['mmd'].add(m['mdi'])
    for i in list(reach['mmd']):
        m = t['mmd'][i]
        if 'sai' in m: reach['ip'].add(m['sai'])
    for i in list(reach['sig']):
        s = t['sig'][i]
        if 'sai' in s: reach['ip'].add(s['sai'])
        if 'qcti' in s: reach['ct'].add(s['qcti'])
        if 'optrdi' in s: reach['nr'].add(s['optrdi'])
    for i in list(reach['qlist']):
        reach['qrr'].update(t['qlist'][i])
    for i in list(reach['rrlist']):
        reach['rr'].update(t['rrlist'][i])
    for i in list(reach['qrr']):
        q = t['qrr'][i]
        reach['nr'].add(q['n']); reach['ct'].add(q['c'])
    for i in list(reach['rr']):
        r = t['rr'][i]
        reach['nr'].add(r['n']); reach['ct'].add(r['c'])
        if 'rdi' in r: reach['nr'].add(r['rdi'])
    return reach


def _abs_time(earliest, off, tps):
    """earliest + offset ticks, big-integer arithmetic, normalised [secs, ticks]"""
    if tps == 0:
        raise SchemaError('tps0', 'time offset present but ticks_per_second is 0')
    total = earliest[0] * tps + earliest[1] + off
    return [total // tps, total % tps]


def interpret_block(b, bps):
    """resolve indices and time offsets: same shape as the read driver's block dump (generic records)"""
    t = b.get('tables', {})
    bpi = b['preamble'].get('bpi')
    bp = bps[bpi if bpi is not None else 0]
    tps = bp['tps']
    earliest = b['preamble'].get('earliest', [0, 0])
    out = {'bpi': bpi, 'earliest': earliest, 'stats': None, 'tps': tps}
    if 'stats' in b:
        out['stats'] = {k: v for k, v in b['stats'].items() if k != '_unknown'}
    ip = t.get('ip', []); nr = t.get('nr', []); ct = t.get('ct', [])

    def qlist(i):
        return [{'n': _hx(nr[q['n']]), 't': ct[q['c']]['t'], 'c': ct[q['c']]['c']} for q in (t['qrr'][x] for x in t['qlist'][i])]

    def rrlist(i):
        res = []
        for r in (t['rr'][x] for x in t['rrlist'][i]):
            j = {'n': _hx(nr[r['n']]), 't': ct[r['c']]['t'], 'c': ct[r['c']]['c']}
            if 'ttl' in r: j['ttl'] = r['ttl']
            if 'rdi' in r: j['rd'] = _hx(nr[r['rdi']])
            res.append(j)
        return res
    qrs = []
    for q in b.get('qr', []):
        j = {}
        if 'toff' in q: j['ts'] = _abs_time(earliest, q['toff'], tps)
        if 'cai' in q: j['cip'] = _hx(ip[q['cai']])
        for k in ('cport', 'tid'):
            if k in q: j[k] = q[k]
        if 'sigi' in q:
            s = t['sig'][q['sigi']]
            if 'sai' in s: j['sip'] = _hx(ip[s['sai']])
            for k in ('sport', 'tflags', 'qtype', 'sigflags', 'opcode', 'dnsflags', 'qrcode', 'qd', 'an', 'ns', 'ar', 'edns', 'udp', 'rrcode'):
                if k in s: j[k] = s[k]
            if 'qcti' in s: j['qct'] = [ct[s['qcti']]['t'], ct[s['qcti']]['c']]
            if 'optrdi' in s: j['optrd'] = _hx(nr[s['optrdi']])
        for k in ('hop', 'delay', 'qsize', 'rsize'):
            if k in q: j[k] = q[k]
        if 'qni' in q: j['qname'] = _hx(nr[q['qni']])
        if 'rpd' in q:
            if 'bi' in q['rpd']: j['bail'] = _hx(nr[q['rpd']['bi']])
            if 'pflags' in q['rpd']: j['pflags'] = q['rpd']['pflags']
        for e, pre in (('qext', 'q'), ('rext', 'r')):
            if e in q:
                x = q[e]
                if 'q' in x: j[pre + 'q'] = qlist(x['q'])
                if 'an' in x: j[pre + 'an'] = rrlist(x['an'])
                if 'au' in x: j[pre + 'au'] = rrlist(x['au'])
                if 'ad' in x: j[pre + 'ad'] = rrlist(x['ad'])
        if 'asn' in q: j['asn'] = _hx(q['asn'])
        if 'cc' in q: j['cc'] = _hx(q['cc'])
        if 'rtt' in q: j['rtt'] = q['rtt']
        qrs.append(j)
    aecs = []
    for a in b.get('aec', []):
        j = {'t': a['t'], 'ip': _hx(ip[a['ai']]), 'cnt': a['cnt']}
        if 'code' in a: j['code'] = a['code']
        if 'tf' in a: j['tf'] = a['tf']
        aecs.append(j)
    mms = []
    for m in b.get('mm', []):
        j = {}
        if 'toff' in m: j['ts'] = _abs_time(earliest, m['toff'], tps)
        if 'cai' in m: j['cip'] = _hx(ip[m['cai']])
        if 'cport' in m: j['cport'] = m['cport']
        if 'mdi' in m:
            d = t['mmd'][m['mdi']]
            if 'sai' in d: j['sip'] = _hx(ip[d['sai']])
            if 'sport' in d: j['sport'] = d['sport']
            if 'tf' in d: j['tf'] = d['tf']
            if 'pl' in d: j['pl'] = _hx(d['pl'])
        mms.append(j)
    out['qr'] = qrs
    out['aec'] = aecs
    out['mm'] = mms
    out['counts'] = [len(qrs), len(aecs), len(mms), len(qrs) + len(aecs) + len(mms)]
    return out


def tables_json(b):
    """tables of a raw block in the read driver's 'tables' dump shape"""
    t = b.get('tables', {})
    strip = lambda d: {k: (_hx(v) if isinstance(v, bytes) else v) for k, v in d.items() if k != '_unknown'}
    return {'ip': [_hx(x) for x in t.get('ip', [])], 'ct': [[c['t'], c['c']] for c in t.get('ct', [])],
            'nr': [_hx(x) for x in t.get('nr', [])], 'sig': [strip(s) for s in t.get('sig', [])],
            'qlist': t.get('qlist', []), 'qrr': [[q['n'], q['c']] for q in t.get('qrr', [])],
            'rrlist': t.get('rrlist', []), 'rr': [strip(r) for r in t.get('rr', [])],
            'mmd': [strip(m) for m in t.get('mmd', [])]}
