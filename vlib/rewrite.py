"""Semantics-preserving re-encodings of a parsed C-DNS file (C08)."""
from . import cbor, cdns_schema
from .cbor import UINT, NEG, BSTR, TSTR, ARRAY, MAP, TAG, SIMPLE, Node

KINDS = ['indef_container', 'indef_string', 'widen_heads', 'permute_maps', 'unknown_members']


def _rand_width(r, n):
    ws = [w for w in (0, 1, 2, 4, 8) if w >= cbor.min_width(n)]
    return r.choice(ws)


def _chunk(r, node):
    data = node.value
    chunks, pos = [], 0
    while pos < len(data):
        n = min(r.choice([1, 2, 3, 7, 24, len(data)]), len(data) - pos)
        chunks.append((_rand_width(r, n) if r.random() < 0.5 else None, data[pos:pos + n]))
        pos += n
    if r.random() < 0.2:
        chunks.insert(r.randrange(len(chunks) + 1), (None, b''))
    node.indef, node.chunks, node.width = True, chunks, 0


def rewrite(r, data, kinds=None, p=0.5, value_gen=None):
    """-> (bytes, counts per rewrite kind).  `data` must be a valid file (strictly parsed + schema-annotated here)."""
    doc = cdns_schema.parse(data)          # annotates map nodes with their schema name
    root = doc.root
    kinds = set(kinds or KINDS)
    counts = {k: 0 for k in KINDS}
    for n in list(cbor.walk(root)):
        if n.major in (ARRAY, MAP):
            if 'indef_container' in kinds and r.random() < p:
                n.indef = not n.indef
                if not n.indef:
                    n.width = None
                counts['indef_container'] += 1
            if n.major == MAP and n.ann is not None:
                if 'permute_maps' in kinds and len(n.value) > 1 and r.random() < p:
                    r.shuffle(n.value)
                    counts['permute_maps'] += 1
                if 'unknown_members' in kinds and r.random() < p * 0.6:
                    known = set(cdns_schema.MAPS[n.ann])
                    for _ in range(r.choice([1, 1, 2])):
                        k = r.choice([r.randrange(17, 24), r.randrange(24, 300), r.randrange(300, 70000), 2 ** 40 + r.randrange(100), -r.randrange(4, 300), -2 ** 33,
                                      # the ends of the CBOR integer range (outside int64): still "unknown integer keys"
                                      r.choice([2 ** 63 - 1, 2 ** 63, 2 ** 64 - 1, 2 ** 64 - 2, 2 ** 64 - 3, -2 ** 63, -2 ** 63 - 1, -2 ** 64, -2 ** 64 + 1, -2 ** 64 + 5])])
                        if k in known or any(kk.value == k for kk, _ in n.value):
                            continue
                        key = Node(UINT if k >= 0 else NEG, k, _rand_width(r, k if k >= 0 else -1 - k) if r.random() < 0.3 else None)
                        val = value_gen(r) if value_gen else Node(UINT, 1, None)
                        n.value.insert(r.randrange(len(n.value) + 1), (key, val))
                        counts['unknown_members'] += 1
        elif n.major in (BSTR, TSTR):
            if 'indef_string' in kinds and r.random() < p:
                _chunk(r, n)
                counts['indef_string'] += 1
            elif 'widen_heads' in kinds and r.random() < p:
                n.width = _rand_width(r, len(n.value))
                counts['widen_heads'] += 1
        elif n.major in (UINT, NEG):
            if 'widen_heads' in kinds and r.random() < p:
                n.width = _rand_width(r, n.value if n.value >= 0 else -1 - n.value)
                counts['widen_heads'] += 1
    for n in cbor.walk(root):
        if n.major in (ARRAY, MAP) and not n.indef and 'widen_heads' in kinds and r.random() < p:
            n.width = _rand_width(r, len(n.value))
            counts['widen_heads'] += 1
    return cbor.encode(root), counts
