"""Batch execution of driver processes: sharding over the cores, crash attribution through BEGIN markers,
sanitizer-report triage into stable keys, watchdogs (a timeout is inconclusive unless it reproduces)."""
import concurrent.futures as cf
import json
import os
import re
import shutil
import signal
import subprocess
import tempfile
import time

from . import build

VERIF = build.VERIF
WORK = os.path.join(VERIF, '.work')
NCPU = int(os.environ.get('VERIF_JOBS', '16'))

SAN_ENV = {
    'ASAN_OPTIONS': 'exitcode=77:detect_leaks=0:abort_on_error=0:allocator_may_return_null=0:max_allocation_size_mb=1024:'
                    'detect_stack_use_after_return=0:handle_abort=1:symbolize=1:print_summary=1',
    'UBSAN_OPTIONS': 'print_stacktrace=1:halt_on_error=1:symbolize=1',
    'TSAN_OPTIONS': 'halt_on_error=0:exitcode=66:second_deadlock_stack=1:history_size=4',
    'ASAN_SYMBOLIZER_PATH': '/usr/bin/llvm-symbolizer-14',
    'TSAN_SYMBOLIZER_PATH': '/usr/bin/llvm-symbolizer-14',
    'UBSAN_SYMBOLIZER_PATH': '/usr/bin/llvm-symbolizer-14',
    'MALLOC_CHECK_': '0',
}


def workdir(tag):
    os.makedirs(WORK, exist_ok=True)
    return tempfile.mkdtemp(prefix=tag + '-', dir=WORK)


def cleanup(d):
    shutil.rmtree(d, ignore_errors=True)


def env_for(extra=None):
    e = dict(os.environ)
    e.update(SAN_ENV)
    if extra:
        e.update(extra)
    return e


_FRAME = re.compile(r'^\s*#(\d+) 0x[0-9a-f]+ in (.+?) (/[^ ]+?):(\d+)')
_FRAME2 = re.compile(r'^\s*#(\d+) 0x[0-9a-f]+ in (.+?) \(')


def _strip_func(f):
    f = re.sub(r'\(.*$', '', f)
    f = re.sub(r'<.*>', '', f)
    return f.strip()


def triage(stderr_text, rc):
    """-> (error class, first frame inside the repository sources, excerpt) or None when the output shows no report"""
    txt = stderr_text
    cls = None
    m = re.search(r'ERROR: AddressSanitizer: ([a-zA-Z0-9_-]+)', txt)
    if m:
        cls = 'asan-' + m.group(1)
    if cls is None:
        m = re.search(r'runtime error: (.+)', txt)
        if m:
            msg = m.group(1)
            msg = re.sub(r'-?\d+', 'N', msg)
            msg = re.sub(r'0x[0-9a-f]+', 'P', msg)
            cls = 'ubsan-' + re.sub(r'[^A-Za-z]+', '-', msg)[:60].strip('-')
    if cls is None and 'ThreadSanitizer' in txt:
        m = re.search(r'WARNING: ThreadSanitizer: ([a-z ]+)', txt)
        cls = 'tsan-' + (m.group(1).strip().replace(' ', '-') if m else 'report')
    if cls is None:
        m = re.search(r'Assertion [\'`](.+?)[\'`] failed', txt)
        if m:
            cls = 'glibcxx-assertion'
    if cls is None and 'terminate called' in txt:
        cls = 'terminate-' + ('after-throwing' if 'after throwing' in txt else 'called')
    if cls is None:
        if rc is not None and rc < 0:
            cls = 'signal-%s' % signal.Signals(-rc).name
        else:
            return None
    func = None
    src = os.path.realpath(build.repo()) + '/src/'
    for line in txt.splitlines():
        fm = _FRAME.match(line)
        if fm and (fm.group(3).startswith(src) or '/src/' in fm.group(3) and '/drv/' not in fm.group(3) and 'include/c++' not in fm.group(3)
                   and '/usr/' not in fm.group(3)):
            func = _strip_func(fm.group(2))
            break
    if func is None:
        for line in txt.splitlines():
            fm = _FRAME.match(line) or _FRAME2.match(line)
            if fm and 'CDNS::' in fm.group(2):
                func = _strip_func(fm.group(2))
                break
    # excerpt: from the first ERROR/runtime error line, 40 lines
    lines = txt.splitlines()
    start = 0
    for i, l in enumerate(lines):
        if 'ERROR: ' in l or 'runtime error' in l or 'WARNING: ThreadSanitizer' in l or 'Assertion' in l or 'terminate called' in l:
            start = i
            break
    return cls, func or 'unknown-frame', '\n'.join(lines[start:start + 40])


class Crash(object):
    def __init__(self, case_index, rc, cls, func, excerpt, kind='crash'):
        self.case_index = case_index
        self.rc = rc
        self.cls = cls
        self.func = func
        self.excerpt = excerpt
        self.kind = kind        # crash | hang

    def key_tail(self):
        return '%s:%s' % (self.cls, self.func)


def _limits(cpu, fsize):
    import resource

    def f():
        if cpu:
            resource.setrlimit(resource.RLIMIT_CPU, (cpu, cpu + 5))
        if fsize:
            resource.setrlimit(resource.RLIMIT_FSIZE, (fsize, fsize))
    return f


def run_limited(exe, args, env=None, timeout=300, cpu=60, fsize=64 << 20):
    """tool run with stdout/stderr going to size-limited files and a CPU-time limit: an endless loop ends in SIGXCPU / SIGXFSZ
    (reported by the caller) instead of eating memory or depending on wall-clock time"""
    d = tempfile.mkdtemp(prefix='lim-', dir=WORK if os.path.isdir(WORK) else None)
    try:
        with open(os.path.join(d, 'o'), 'wb') as fo, open(os.path.join(d, 'e'), 'wb') as fe:
            p = subprocess.Popen([exe] + args, stdout=fo, stderr=fe, env=env_for(env), start_new_session=True, preexec_fn=_limits(cpu, fsize))
            to = False
            try:
                p.wait(timeout=timeout)
            except subprocess.TimeoutExpired:
                to = True
                try:
                    os.killpg(p.pid, signal.SIGKILL)
                except Exception:
                    p.kill()
                p.wait()
        out = open(os.path.join(d, 'o'), 'rb').read(1 << 20).decode(errors='replace')
        err = open(os.path.join(d, 'e'), 'rb').read(1 << 20).decode(errors='replace')
        return (None if to else p.returncode), out, err, to
    finally:
        shutil.rmtree(d, ignore_errors=True)


def _run_stream(argv, env, timeout, cwd=None):
    """run, return (rc, stdout, stderr, timed_out)"""
    p = subprocess.Popen(argv, stdout=subprocess.PIPE, stderr=subprocess.PIPE, env=env, cwd=cwd, start_new_session=True)
    try:
        out, err = p.communicate(timeout=timeout)
        return p.returncode, out.decode(errors='replace'), err.decode(errors='replace'), False
    except subprocess.TimeoutExpired:
        try:
            os.killpg(p.pid, signal.SIGKILL)
        except Exception:
            p.kill()
        out, err = p.communicate()
        return None, out.decode(errors='replace'), err.decode(errors='replace'), True


def run_shard(exe, sub, casefile, resultfile, pre_args, post_args, env, timeout, ncases):
    """Run one driver process over casefile, resuming after crashes.  argv = exe sub casefile *pre resultfile *post start"""
    crashes = []
    timed_out = set()
    start = 0
    guard = 0
    stderr_all = []
    while start < ncases and guard < ncases + 2:
        guard += 1
        argv = [exe, sub, casefile] + pre_args + [resultfile] + post_args + [str(start)]
        rc, out, err, to = _run_stream(argv, env, timeout)
        stderr_all.append(err)
        begins = re.findall(r'^BEGIN (\d+)$', out, re.M)
        done = re.search(r'^DONE (\d+)$', out, re.M)
        if rc == 0 and done:
            break
        cur = int(begins[-1]) if begins else start
        if to:
            # a wall-clock watchdog is not a verdict on a loaded machine: the case is tried once more (the shard resumes at it);
            # only a second firing on the same case is reported as a hang
            if cur not in timed_out:
                timed_out.add(cur)
                start = cur
                continue
            crashes.append(Crash(cur, None, 'timeout', 'watchdog', 'process exceeded %ds wall twice on this case' % timeout, 'hang'))
        else:
            tr = triage(err, rc)
            if tr is None:
                tr = ('exit-%s' % rc, 'unknown-frame', err[-2000:])
            crashes.append(Crash(cur, rc, tr[0], tr[1], tr[2]))
        start = cur + 1
    return crashes, '\n'.join(stderr_all)


def run_cases(flavour, sub, cases, tag, pre_args_fn=None, post_args=None, env=None, timeout=900, shards=None,
              keep=False, line_of=json.dumps):
    """Shard `cases` (list of JSON-able dicts) over processes of `vdrv sub`.
    pre_args_fn(workdir) -> list of args placed between casefile and resultfile (e.g. the output directory).
    Returns (results: dict case_index -> parsed result line, crashes: [Crash] with GLOBAL case index, wd)"""
    drvd, libd = build.ensure(flavour)
    exe = os.path.join(drvd, 'vdrv')
    wd = workdir(tag)
    n = len(cases)
    shards = shards or max(1, min(NCPU, (n + 3) // 4))
    parts = [list(range(s, n, shards)) for s in range(shards)]
    e = env_for(env)
    jobs = []
    for si, idxs in enumerate(parts):
        if not idxs:
            continue
        cf_path = os.path.join(wd, 'cases_%d.jsonl' % si)
        with open(cf_path, 'w') as f:
            for i in idxs:
                f.write(line_of(cases[i]) + '\n')
        jobs.append((si, idxs, cf_path, os.path.join(wd, 'results_%d.jsonl' % si)))
    results, crashes = {}, []

    def one(job):
        si, idxs, cfp, rfp = job
        pre = pre_args_fn(wd) if pre_args_fn else []
        cr, err = run_shard(exe, sub, cfp, rfp, pre, post_args or [], e, timeout, len(idxs))
        res = {}
        if os.path.exists(rfp):
            with open(rfp) as f:
                for line in f:
                    line = line.strip()
                    if not line:
                        continue
                    try:
                        j = json.loads(line)
                    except ValueError:
                        continue
                    res[idxs[j['case']]] = j
        for c in cr:
            c.case_index = idxs[c.case_index] if c.case_index < len(idxs) else idxs[-1]
        return res, cr

    with cf.ThreadPoolExecutor(max_workers=NCPU) as ex:
        for res, cr in ex.map(one, jobs):
            results.update(res)
            crashes.extend(cr)
    if not keep:
        # caller cleans wd when done with produced files
        pass
    return results, crashes, wd


def run_tool(exe, args, env=None, timeout=120, cwd=None, stdin=None):
    """one process; a watchdog firing is re-tried once before it is reported (a timeout is a 'hang' only if it reproduces)"""
    e = env_for(env)
    rc, out, err, to = _run_stream([exe] + args, e, timeout, cwd)
    if to:
        rc, out, err, to = _run_stream([exe] + args, e, timeout, cwd)
    return rc, out, err, to
