"""Known-findings matching and the VIOLATION / KNOWN-FINDING protocol.

known_findings.json is committed and never written at run time.  An entry with status "open" turns a violation
with a matching key into a KNOWN-FINDING line; entries with status "fixed" suppress nothing."""
import fnmatch
import hashlib
import json
import os

VERIF = os.path.dirname(os.path.dirname(os.path.abspath(__file__)))
KF = os.path.join(VERIF, 'known_findings.json')


def load():
    try:
        with open(KF) as f:
            return json.load(f).get('findings', [])
    except (OSError, ValueError):
        return []


class Violation(object):
    def __init__(self, prop, key, what, payload=None):
        self.prop = prop
        self.key = key              # stable: <prop>:<oracle or error class>:<discriminating facts>
        self.what = what
        self.payload = payload      # JSON-able replay payload


def classify(violations):
    """-> (unlisted [Violation], known [(Violation, entry)]) ; one per distinct key"""
    kf = [e for e in load() if e.get('status') == 'open']
    seen = {}
    for v in violations:
        seen.setdefault(v.key, v)
    unlisted, known = [], []
    for key, v in seen.items():
        hit = None
        for e in kf:
            if e.get('property') == v.prop and (e.get('key') == key or fnmatch.fnmatchcase(key, e.get('key', ''))):
                hit = e
                break
        if hit:
            known.append((v, hit))
        else:
            unlisted.append(v)
    return unlisted, known


def write_replay(v):
    alt = os.path.realpath(os.environ.get('VERIF_REPO', '/repo')) != '/repo'
    d = os.path.join(VERIF, '.work', 'replays-alt', v.prop) if alt else os.path.join(VERIF, 'replays', v.prop)
    os.makedirs(d, exist_ok=True)
    body = json.dumps({'property': v.prop, 'key': v.key, 'what': v.what, 'payload': v.payload}, indent=1, sort_keys=True, default=str)
    name = hashlib.sha256(body.encode()).hexdigest()[:16] + '.json'
    path = os.path.join(d, name)
    with open(path, 'w') as f:
        f.write(body)
    return path
