"""Structure-aware and byte-level mutations of valid C-DNS files (hostile inputs for C03)."""
from . import cbor
from .cbor import UINT, NEG, BSTR, TSTR, ARRAY, MAP, TAG, SIMPLE

BIG = [0, 1, 23, 24, 255, 256, 65535, 65536, 2 ** 31 - 1, 2 ** 31, 2 ** 32 - 1, 2 ** 32, 2 ** 63 - 1, 2 ** 63, 2 ** 64 - 1]


def head_len(data, start):
    ai = data[start] & 31
    return 1 + (0 if ai < 24 or ai == 31 else 1 << (ai - 24))


def patch_head(data, node, new_arg, width=None):
    """rewrite only the head of `node` (declared value / length), content untouched"""
    hl = head_len(data, node.start)
    return data[:node.start] + cbor.enc_head(node.major, new_arg, width) + data[node.start + hl:]


KINDS = ['field_boundary', 'array_head_boundary', 'maxitems_and_len', 'uint_boundary', 'len_lie_container', 'len_lie_string', 'major_flip', 'nest_array', 'nest_indef', 'nest_map', 'nest_tag',
         'truncate', 'tps_zero', 'time_huge', 'name_garbage', 'byte_flip', 'byte_insert', 'byte_delete', 'dup_key', 'splice',
         'random_bytes', 'empty', 'ai_reserved', 'indef_unterminated', 'huge_string_head']


def mutate(r, data, kind=None):
    """-> (kind, bytes).  data is a valid file."""
    kind = kind or r.choice(KINDS + ['field_boundary'] * 3)
    try:
        root = cbor.decode_one(data)
    except cbor.CborError:
        root = None
    nodes = list(cbor.walk(root)) if root is not None else []

    def pick(pred):
        c = [n for n in nodes if pred(n)]
        return r.choice(c) if c else None
    if kind in ('array_head_boundary', 'maxitems_and_len'):
        # the declared length of one array, chosen uniformly over the KINDS of arrays the schema knows (block-parameter list,
        # each table, each item array, opcode / rr-type / vlan lists, index lists ...), not over instances
        from . import cdns_schema
        try:
            doc = cdns_schema.parse(data)
        except Exception:
            return kind, data
        classes = {}
        maxnodes = []
        for n in cbor.walk(doc.root):
            if n.major == MAP and n.ann:
                for k, v in n.value:
                    if v.major == ARRAY and not v.indef:
                        classes.setdefault((n.ann, k.value), []).append(v)
                        if n.ann in ('BlockTables',):
                            for c in v.value:
                                if c.major == ARRAY and not c.indef:
                                    classes.setdefault((n.ann, k.value, 'inner'), []).append(c)
                    if n.ann == 'StorageParameters' and k.value == 1 and v.major == UINT:
                        maxnodes.append(v)
        if doc.blocks_node is not None and not doc.blocks_node.indef:
            classes[('File', 'blocks')] = [doc.blocks_node]
        if not classes:
            return kind, data
        if kind == 'maxitems_and_len':
            # a huge max-block-items (a natural clamp for a reservation) together with a lying item-array length
            cls = [c for c in classes if c[0] == 'Block' and c[1] in (3, 4, 5)]
            if not cls or not maxnodes:
                return kind, data
            target = r.choice(classes[r.choice(cls)])
            edits = [(m.start, m.end, cbor.enc_head(0, r.choice([2 ** 40, 2 ** 62, 2 ** 64 - 1, 2 ** 32]))) for m in maxnodes]
            edits.append((target.start, target.start + head_len(data, target.start), cbor.enc_head(4, r.choice([2 ** 28, 2 ** 32, 2 ** 40, 2 ** 62, 2 ** 64 - 1]))))
            out = data
            for a, b, rep in sorted(edits, reverse=True):
                out = out[:a] + rep + out[b:]
            return kind, out
        target = r.choice(classes[r.choice(sorted(classes, key=repr))])
        real = len(target.value)
        return kind, patch_head(data, target, r.choice([real + 1, real + 1000, 2 ** 24, 2 ** 28, 2 ** 32, 2 ** 40, 2 ** 62, 2 ** 63, 2 ** 64 - 1]))
    if kind == 'field_boundary':
        # a boundary integer in one NAMED numeric member (schema-aware: every numeric field of every map gets its turn,
        # time offsets / earliest time / tick rate / table indices preferentially)
        from . import cdns_schema
        try:
            doc = cdns_schema.parse(data)
        except Exception:
            return kind, data
        cands, hot = [], []
        by_class = {}
        for n in cbor.walk(doc.root):
            if n.major == MAP and n.ann:
                for k, v in n.value:
                    if v.major in (UINT, NEG):
                        cands.append(v)
                        by_class.setdefault((n.ann, k.value), []).append(v)
                        if (n.ann in ('QueryResponse', 'MalformedMessage') and k.value == 0) or (n.ann == 'StorageParameters' and k.value == 0) \
                                or n.ann in ('BlockPreamble',):
                            hot.append(v)
                    elif v.major == ARRAY and n.ann == 'BlockPreamble':
                        hot += [c for c in v.value if c.major == UINT]
        x = r.random()
        if hot and x < 0.4:
            pool = hot
        elif by_class and x < 0.8:
            pool = by_class[r.choice(sorted(by_class, key=repr))]      # uniform over member kinds, then over instances
        else:
            pool = cands
        if not pool:
            return kind, data
        v = r.choice(pool)
        val = r.choice([2 ** 63, 2 ** 63, 2 ** 63 - 1, 2 ** 63 + 1, 2 ** 64 - 1, 2 ** 32, 2 ** 32 - 1, 2 ** 31, 0, 1, 2 ** 62, 65536, 255])
        out = data[:v.start] + cbor.enc_head(0, val) + data[v.end:]
        return kind, out
    if kind == 'uint_boundary':
        out = data
        for _ in range(r.choice([1, 1, 2, 4])):
            n = pick(lambda n: n.major == UINT)
            if n is None:
                break
            # nodes' offsets are only valid for the first patch when the width changes: re-parse
            out2 = patch_head(out, n, r.choice(BIG))
            out = out2
            try:
                nodes[:] = list(cbor.walk(cbor.decode_one(out)))
            except cbor.CborError:
                break
        return kind, out
    if kind == 'len_lie_container':
        n = pick(lambda n: n.major in (ARRAY, MAP) and not n.indef)
        if n is None:
            return kind, data
        real = len(n.value)
        return kind, patch_head(data, n, r.choice([real + 1, max(0, real - 1), real + 1000, 2 ** 32, 2 ** 64 - 1, 2 ** 63, 0]))
    if kind == 'len_lie_string':
        n = pick(lambda n: n.major in (BSTR, TSTR) and not n.indef)
        if n is None:
            return kind, data
        real = len(n.value)
        return kind, patch_head(data, n, r.choice([real + 1, max(0, real - 1), 2 ** 32, 2 ** 32 + 5, 2 ** 64 - 1, 2 ** 36, 65536, 10 ** 6]))
    if kind == 'huge_string_head':
        # the 9-byte head of a 64 GiB string in place of some value
        n = pick(lambda n: n.major in (BSTR, TSTR, UINT))
        if n is None:
            return kind, data
        m = r.choice([2, 3])
        return kind, data[:n.start] + cbor.enc_head(m, r.choice([2 ** 36, 2 ** 40, 2 ** 64 - 1, 2 ** 33]), 8) + data[n.end:]
    if kind == 'major_flip':
        n = pick(lambda n: True)
        if n is None:
            return kind, data
        b = bytearray(data)
        b[n.start] = (b[n.start] & 31) | (r.randrange(8) << 5)
        return kind, bytes(b)
    if kind in ('nest_array', 'nest_indef', 'nest_map', 'nest_tag'):
        n = pick(lambda n: n.major in (UINT, BSTR, TSTR))
        depth = r.choice([10, 600, 5000, 200000])
        unit = {'nest_array': b'\x81', 'nest_indef': b'\x9f', 'nest_map': b'\xa1\x01', 'nest_tag': b'\xc1'}[kind]
        if n is None:
            return kind, unit * depth
        if r.random() < 0.5:
            # as the value of an unknown key in some map -> skip_item path
            m = pick(lambda n: n.major == MAP and not n.indef)
            if m is not None:
                hl = head_len(data, m.start)
                body = data[m.start + hl:m.end]
                new = cbor.enc_head(5, len(m.value) + 1) + cbor.enc_head(0, 99) + unit * depth + b'\x00' + (b'\xff' * depth if kind == 'nest_indef' and r.random() < 0.5 else b'') + body
                return kind, data[:m.start] + new + data[m.end:]
        return kind, data[:n.start] + unit * depth + data[n.start:]
    if kind == 'truncate':
        return kind, data[:r.randrange(0, len(data))] if data else data
    if kind == 'tps_zero':
        # first uint after key 0 inside storage parameters: brute force - find map value nodes equal to a tick rate
        n = pick(lambda n: n.major == UINT and n.value in (1, 10, 1000, 10 ** 6, 10 ** 9))
        if n is None:
            return kind, data
        return kind, patch_head(data, n, r.choice([0, 0, 2 ** 64 - 1, 2 ** 63]))
    if kind == 'time_huge':
        n = pick(lambda n: n.major == ARRAY and len(n.value) == 2 and all(c.major == UINT for c in n.value))
        if n is None:
            return kind, data
        c = r.choice(n.value)
        return kind, patch_head(data, c, r.choice([2 ** 63, 2 ** 64 - 1, 2 ** 62, 2 ** 63 - 1, 2 ** 44]))
    if kind == 'name_garbage':
        n = pick(lambda n: n.major == BSTR and not n.indef)
        if n is None:
            return kind, data
        L = r.randrange(0, 41)
        k = r.random()
        if k < 0.3:
            g = bytes([r.randrange(1, 64)]) + bytes(r.randrange(97, 123) for _ in range(max(0, L - 1)))   # label longer than the name
        elif k < 0.5:
            g = bytes([20]) + b'a' * 19
        elif k < 0.7:
            g = b''.join(bytes([3]) + b'abc' for _ in range(L // 4))       # unterminated labels
        else:
            g = bytes(r.getrandbits(8) for _ in range(L))
        return kind, data[:n.start] + cbor.ref_bstr(g) + data[n.end:]
    if kind == 'byte_flip':
        b = bytearray(data)
        for _ in range(r.choice([1, 1, 2, 5])):
            if b:
                i = r.randrange(len(b))
                b[i] ^= 1 << r.randrange(8) if r.random() < 0.7 else r.randrange(1, 256)
        return kind, bytes(b)
    if kind == 'byte_insert':
        i = r.randrange(len(data) + 1)
        ins = bytes(r.getrandbits(8) for _ in range(r.choice([1, 1, 2, 9])))
        return kind, data[:i] + ins + data[i:]
    if kind == 'byte_delete':
        if len(data) < 2:
            return kind, data
        i = r.randrange(len(data))
        return kind, data[:i] + data[i + r.choice([1, 1, 2, 8]):]
    if kind == 'dup_key':
        m = pick(lambda n: n.major == MAP and not n.indef and len(n.value) >= 1)
        if m is None:
            return kind, data
        k, v = r.choice(m.value)
        hl = head_len(data, m.start)
        pair = data[k.start:v.end]
        return kind, data[:m.start] + cbor.enc_head(5, len(m.value) + 1) + data[m.start + hl:m.end] + pair + data[m.end:]
    if kind == 'splice':
        if len(nodes) < 2:
            return kind, data
        a, b = r.choice(nodes), r.choice(nodes)
        return kind, data[:a.start] + data[b.start:b.end] + data[a.end:]
    if kind == 'random_bytes':
        return kind, bytes(r.getrandbits(8) for _ in range(r.choice([1, 2, 9, 64, 300])))
    if kind == 'empty':
        return kind, b''
    if kind == 'ai_reserved':
        n = pick(lambda n: True)
        if n is None:
            return kind, data
        b = bytearray(data)
        b[n.start] = (b[n.start] & 0xe0) | r.choice([28, 29, 30, 31])
        return kind, bytes(b)
    if kind == 'indef_unterminated':
        n = pick(lambda n: n.major in (ARRAY, MAP, BSTR, TSTR) and not n.indef)
        if n is None:
            return kind, data
        hl = head_len(data, n.start)
        return kind, data[:n.start] + bytes([(n.major << 5) | 31]) + data[n.start + hl:]
    return kind, data
