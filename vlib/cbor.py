"""Independent strict RFC 8949 codec used as the byte-level oracle.

decode_one(data)      -> Node tree (with byte offsets and the encoding choices found), raises CborError on
                         anything that is not exactly ONE well-formed data item covering all of `data`.
decode_prefix(data,o) -> (Node, next_offset) for streaming use.
encode(node)          -> bytes, honouring the node's encoding attributes (head width, indefinite, chunks), so
                         that a parsed tree can be re-encoded differently (semantics-preserving rewrites, C08).
ref_*                 -> reference (preferred / shortest) encodings for the encoder oracle (C06).
"""
import struct


class CborError(Exception):
    def __init__(self, msg, offset=None):
        Exception.__init__(self, msg if offset is None else '%s at offset %d' % (msg, offset))
        self.offset = offset
        self.msg = msg


UINT, NEG, BSTR, TSTR, ARRAY, MAP, TAG, SIMPLE = range(8)


class Node(object):
    __slots__ = ('major', 'value', 'width', 'indef', 'chunks', 'start', 'end', 'ann')

    def __init__(self, major, value, width=None, indef=False, chunks=None, start=None, end=None):
        self.major = major      # 0..7
        self.value = value      # int | bytes | [Node] | [(Node, Node)] | (tag, Node) | ('simple', n) | ('float', bytes)
        self.width = width      # bytes used for the head argument: 0,1,2,4,8 (None = shortest)
        self.indef = indef
        self.chunks = chunks    # indefinite strings: list of (width, bytes)
        self.start = start
        self.end = end
        self.ann = None         # annotation slot for the schema layer

    def __repr__(self):
        return 'Node(%d,%r)' % (self.major, self.value if self.major < 4 else '...')

    # convenience
    def is_int(self):
        return self.major in (UINT, NEG)

    def py(self):
        """plain Python value (ints, bytes, lists, dict of int keys where possible)"""
        m = self.major
        if m in (UINT, NEG, BSTR, TSTR):
            return self.value
        if m == ARRAY:
            return [c.py() for c in self.value]
        if m == MAP:
            return [(k.py(), v.py()) for k, v in self.value]
        if m == TAG:
            return ('tag', self.value[0], self.value[1].py())
        return self.value


def _head(data, o):
    if o >= len(data):
        raise CborError('truncated: item head expected', o)
    ib = data[o]
    major, ai = ib >> 5, ib & 31
    o += 1
    if ai < 24:
        return major, ai, ai, 0, o
    if ai <= 27:
        w = 1 << (ai - 24)
        if o + w > len(data):
            raise CborError('truncated inside head argument', o)
        return major, ai, int.from_bytes(data[o:o + w], 'big'), w, o + w
    if ai < 31:
        raise CborError('reserved additional information %d' % ai, o - 1)
    return major, 31, None, 0, o


def decode_prefix(data, o=0, depth=0):
    """Decode one item starting at o (iterative for containers so that depth is unbounded)."""
    # explicit stack: each frame = [node, remaining (None for indefinite), pending_key]
    stack = []
    result = None
    while True:
        start = o
        major, ai, arg, w, o = _head(data, o)
        node = None
        if ai == 31:
            if major in (UINT, NEG, TAG):
                raise CborError('indefinite length not allowed for major type %d' % major, start)
            if major == SIMPLE:
                # break: only legal as terminator of the innermost indefinite container at a key/item position
                if not stack or stack[-1][1] is not None:
                    raise CborError('unexpected break', start)
                fr = stack[-1]
                if fr[0].major == MAP and fr[2] is not None:
                    raise CborError('break between map key and value', start)
                if fr[0].major == TAG:
                    raise CborError('break as tag content', start)
                fr[0].end = o
                node = stack.pop()[0]
                # completed container: fall through to "attach"
            elif major in (BSTR, TSTR):
                chunks = []
                while True:
                    if o >= len(data):
                        raise CborError('truncated: unterminated indefinite string', o)
                    if data[o] == 0xff:
                        o += 1
                        break
                    cm, cai, carg, cw, o2 = _head(data, o)
                    if cm != major or cai == 31:
                        raise CborError('bad chunk in indefinite string', o)
                    if o2 + carg > len(data):
                        raise CborError('truncated inside string chunk', o2)
                    chunks.append((cw, bytes(data[o2:o2 + carg])))
                    o = o2 + carg
                node = Node(major, b''.join(c for _, c in chunks), 0, True, chunks, start, o)
            else:
                node = Node(major, [], 0, True, None, start, None)
                stack.append([node, None, None])
                continue
        elif major in (UINT, NEG):
            node = Node(major, arg if major == UINT else -1 - arg, w, False, None, start, o)
        elif major in (BSTR, TSTR):
            if o + arg > len(data):
                raise CborError('truncated inside string (declared %d bytes)' % arg, o)
            node = Node(major, bytes(data[o:o + arg]), w, False, None, start, o + arg)
            o += arg
        elif major in (ARRAY, MAP):
            node = Node(major, [], w, False, None, start, None)
            if arg == 0:
                node.end = o
            else:
                stack.append([node, arg, None])
                continue
        elif major == TAG:
            node = Node(TAG, (arg, None), w, False, None, start, None)
            stack.append([node, 1, None])
            continue
        else:  # SIMPLE / float
            if ai < 24:
                node = Node(SIMPLE, ('simple', ai), 0, False, None, start, o)
            elif ai == 24:
                if arg < 32:
                    raise CborError('two-byte simple value < 32', start)
                node = Node(SIMPLE, ('simple', arg), 1, False, None, start, o)
            else:
                node = Node(SIMPLE, ('float', bytes(data[o - w:o])), w, False, None, start, o)
        # attach completed node to parents, closing definite containers that become full
        while True:
            if not stack:
                return node, o
            fr = stack[-1]
            parent = fr[0]
            if parent.major == ARRAY:
                parent.value.append(node)
            elif parent.major == MAP:
                if fr[2] is None:
                    fr[2] = node
                    break
                parent.value.append((fr[2], node))
                fr[2] = None
            else:  # TAG
                parent.value = (parent.value[0], node)
            if fr[1] is not None:
                if parent.major != MAP or fr[2] is None:
                    fr[1] -= 1
                if fr[1] == 0:
                    parent.end = o
                    node = stack.pop()[0]
                    continue
            break


def decode_one(data):
    node, o = decode_prefix(data, 0)
    if o != len(data):
        raise CborError('%d trailing byte(s) after the data item' % (len(data) - o), o)
    return node


# ------------------------------------------------------------------------------------------------ encoding

def enc_head(major, n, width=None):
    """head with argument n; width None = shortest, else forced 0/1/2/4/8 (must be able to hold n)"""
    if width is None:
        width = 0 if n < 24 else 1 if n < 256 else 2 if n < 65536 else 4 if n < 2 ** 32 else 8
    if width == 0:
        if n >= 24:
            raise ValueError('value needs a wider head')
        return bytes([(major << 5) | n])
    ai = {1: 24, 2: 25, 4: 26, 8: 27}[width]
    return bytes([(major << 5) | ai]) + n.to_bytes(width, 'big')


def min_width(n):
    return 0 if n < 24 else 1 if n < 256 else 2 if n < 65536 else 4 if n < 2 ** 32 else 8


def ref_uint(n):
    return enc_head(0, n)


def ref_int(n):
    return enc_head(0, n) if n >= 0 else enc_head(1, -1 - n)


def ref_bstr(b):
    return enc_head(2, len(b)) + b


def ref_tstr(b):
    return enc_head(3, len(b)) + b


def ref_array(n):
    return enc_head(4, n)


def ref_map(n):
    return enc_head(5, n)


REF_BOOL = {False: b'\xf4', True: b'\xf5'}
REF_IARR, REF_IMAP, REF_BREAK = b'\x9f', b'\xbf', b'\xff'


def encode(node):
    out = []
    _encode(node, out)
    return b''.join(out)


def _w(node, n):
    w = node.width
    if w is None or w < min_width(n):
        return None
    return w


def _encode(node, out):
    # iterative to survive deep nesting
    stack = [node]
    while stack:
        x = stack.pop()
        if isinstance(x, bytes):
            out.append(x)
            continue
        m = x.major
        if m == UINT:
            out.append(enc_head(0, x.value, _w(x, x.value)))
        elif m == NEG:
            out.append(enc_head(1, -1 - x.value, _w(x, -1 - x.value)))
        elif m in (BSTR, TSTR):
            if x.indef:
                out.append(bytes([(m << 5) | 31]))
                for cw, c in (x.chunks if x.chunks is not None else [(None, x.value)]):
                    out.append(enc_head(m, len(c), cw if cw is not None and cw >= min_width(len(c)) else None) + c)
                out.append(b'\xff')
            else:
                out.append(enc_head(m, len(x.value), _w(x, len(x.value))) + x.value)
        elif m == ARRAY:
            if x.indef:
                out.append(b'\x9f')
                stack.append(b'\xff')
            else:
                out.append(enc_head(4, len(x.value), _w(x, len(x.value))))
            for c in reversed(x.value):
                stack.append(c)
        elif m == MAP:
            if x.indef:
                out.append(b'\xbf')
                stack.append(b'\xff')
            else:
                out.append(enc_head(5, len(x.value), _w(x, len(x.value))))
            for k, v in reversed(x.value):
                stack.append(v)
                stack.append(k)
        elif m == TAG:
            out.append(enc_head(6, x.value[0], _w(x, x.value[0])))
            stack.append(x.value[1])
        else:
            kind, v = x.value
            if kind == 'simple':
                out.append(bytes([0xe0 | v]) if v < 24 else bytes([0xf8, v]))
            else:
                out.append(bytes([0xe0 | {2: 25, 4: 26, 8: 27}[len(v)]]) + v)


# node constructors for generators
def N_uint(n, width=None):
    return Node(UINT, n, width)


def N_int(n, width=None):
    return Node(UINT if n >= 0 else NEG, n, width)


def N_bstr(b, **kw):
    return Node(BSTR, b, **kw)


def N_tstr(b, **kw):
    return Node(TSTR, b, **kw)


def N_array(items, **kw):
    return Node(ARRAY, list(items), **kw)


def N_map(pairs, **kw):
    return Node(MAP, list(pairs), **kw)


def N_tag(t, child, width=None):
    return Node(TAG, (t, child), width)


def N_simple(v):
    return Node(SIMPLE, ('simple', v))


def N_float(raw):
    return Node(SIMPLE, ('float', raw))


def walk(node):
    """all nodes, pre-order, iterative"""
    stack = [node]
    while stack:
        x = stack.pop()
        yield x
        if x.major == ARRAY:
            stack.extend(reversed(x.value))
        elif x.major == MAP:
            for k, v in reversed(x.value):
                stack.append(v)
                stack.append(k)
        elif x.major == TAG:
            stack.append(x.value[1])
