"""Seeded generators: records, block parameters, preambles, API histories, CBOR items.
Everything is derived from a random.Random instance handed in by the check (seeded from VERIF_SEED)."""
import random

QR_HINT_BITS = 18
SIG_HINT_BITS = 17
ALL_QRH = (1 << 18) - 1
ALL_SIGH = (1 << 17) - 1


def seeded(seed, *salt):
    return random.Random('%d/%s' % (seed, '/'.join(str(s) for s in salt)))


def bound_uint(r, bits):
    """boundary-biased unsigned of the given width"""
    top = (1 << bits) - 1
    c = [0, 1, 23, 24, 255, 256, 65535, 65536, 2 ** 32 - 1, 2 ** 32, 2 ** 63 - 1, 2 ** 63, 2 ** 64 - 1]
    c = [x for x in c if x <= top] + [top, top - 1 if top else 0]
    k = r.random()
    if k < 0.45:
        return r.choice(c)
    if k < 0.6:
        return r.randrange(0, min(top, 300) + 1)
    return r.randrange(0, top + 1)


def bound_int64(r):
    c = [0, 1, -1, 23, 24, -24, -25, 255, 256, -256, -257, 65535, 65536, -65536, -65537, 2 ** 32 - 1, 2 ** 32, -2 ** 32,
         -2 ** 32 - 1, 2 ** 63 - 1, -2 ** 63, -2 ** 63 + 1]
    k = r.random()
    if k < 0.5:
        return r.choice(c)
    if k < 0.7:
        return r.randrange(-300, 300)
    return r.randrange(-2 ** 63, 2 ** 63)


def rbytes(r, n):
    return bytes(r.getrandbits(8) for _ in range(n)) if n < 64 else r.getrandbits(8 * n).to_bytes(n, 'big')


class Pools(object):
    """small pools force block-table hits, big domains force growth"""

    def __init__(self, r, big=False, huge=0.0):
        self.r = r
        self.huge = huge          # probability of a string longer than the decoder window / several encoder buffers
        self.ips = [rbytes(r, 4) for _ in range(4)] + [rbytes(r, 16) for _ in range(3)]
        self.names = [self.dname(r) for _ in range(6)]
        self.rdatas = [rbytes(r, r.choice([0, 1, 4, 16, 23, 24, 40])) for _ in range(5)]
        self.cts = [(1, 1), (28, 1), (15, 1), (65535, 255), (0, 0)]
        self.big = big

    @staticmethod
    def dname(r):
        out = b''
        for _ in range(r.randrange(1, 4)):
            l = r.randrange(1, 12)
            if r.random() < 0.15:
                out += bytes([l]) + bytes(r.randrange(256) for _ in range(l))      # any octet is legal inside a label
            else:
                out += bytes([l]) + bytes(r.choice(b'abcdefghijklmnopqrstuvwxyz0123456789-') for _ in range(l))
        return out + b'\x00'

    def ip(self):
        r = self.r
        if self.big or r.random() < 0.25:
            k = r.random()
            n = 4 if k < 0.45 else 16 if k < 0.9 else r.choice([0, 1, 3, 5, 15, 17, 32])
            return rbytes(r, n)
        return r.choice(self.ips)

    def name(self):
        r = self.r
        if self.huge and r.random() < self.huge:
            return rbytes(r, r.choice([2047, 2048, 2049, 4100, 65535, 65536, 70000, 140000]))
        if self.big or r.random() < 0.25:
            return self.dname(r) if r.random() < 0.7 else rbytes(r, r.choice([0, 1, 2, 23, 24, 63, 255, 256, 300]) if r.random() < 0.6 else r.randrange(0, 140))
        return r.choice(self.names)

    def rdata(self):
        r = self.r
        if self.huge and r.random() < self.huge:
            return rbytes(r, r.choice([2040, 2048, 6200, 65530, 65535, 65537, 100000]))
        if self.big or r.random() < 0.3:
            return rbytes(r, r.choice([0, 1, 2, 4, 16, 23, 24, 100, 255, 256, 600]) if r.random() < 0.7 else r.randrange(0, 140))
        return r.choice(self.rdatas)

    def ct(self):
        r = self.r
        if self.big or r.random() < 0.3:
            return (bound_uint(r, 16), bound_uint(r, 16))
        return r.choice(self.cts)


def utf8(r, maxlen=12):
    alphabet = ['a', 'b', 'Z', '0', ' ', '-', '\u00e9', '\u017e', '\u65e5', '\u672c', '\U0001d11e', '\u00a0', '\u00df', '\x00', '\n', '\x7f', '"',
                # first and last code point of every UTF-8 sequence length, the surrogate gap's neighbours, the last code point
                '\x01', '\u0080', '\u07ff', '\u0800', '\ud7ff', '\ue000', '\ufffd', '\uffff', '\U00010000', '\U0010ffff']
    return ''.join(r.choice(alphabet) for _ in range(r.randrange(0, maxlen))).encode('utf-8')


def gen_rr(r, P, question=False, full=False):
    t, c = P.ct()
    j = {'n': P.name().hex(), 't': t, 'c': c}
    if not question:
        if full or r.random() < 0.7:
            j['ttl'] = bound_uint(r, 32)
        if full or r.random() < 0.7:
            j['rd'] = P.rdata().hex()
    return j


def gen_rrs(r, P, question=False, full=False, allow_empty=True):
    n = r.choice([0, 1, 1, 2, 3, 6]) if allow_empty and not full else r.choice([1, 2, 3])
    return [gen_rr(r, P, question, full) for _ in range(n)]


def gen_ts(r, tps, base=None):
    """normalised timestamp with secs*tps+ticks < 2^63"""
    limit = (2 ** 63 - 1) // tps
    k = r.random()
    if base is not None and k < 0.75:
        secs = max(0, min(limit - 1, base + r.randrange(-5, 6)))
    elif k < 0.85:
        secs = r.choice([0, 1, 2 ** 31 - 1, 2 ** 31, 2 ** 32 - 1, 2 ** 32, limit - 1])
        secs = min(secs, limit - 1)
    else:
        secs = r.randrange(0, min(limit, 2 ** 40))
    ticks = r.choice([0, 1, tps - 1, tps // 2]) if r.random() < 0.5 else r.randrange(0, tps)
    ticks = min(ticks, tps - 1)
    return [secs, ticks]


QR_SCALARS = [('cport', 16), ('tid', 16), ('hop', 8), ('qsize', 64), ('rsize', 64)]
SIG_SCALARS = [('sport', 16), ('tflags', 8), ('qtype', 8), ('sigflags', 8), ('opcode', 8), ('dnsflags', 16), ('qrcode', 16),
               ('qd', 16), ('an', 16), ('ns', 16), ('ar', 16), ('edns', 8), ('udp', 16), ('rrcode', 16)]
RR_SECTIONS = ['qq', 'qan', 'qau', 'qad', 'rq', 'ran', 'rau', 'rad']


def gen_qr(r, P, tps, base_ts=None, mode=None):
    """mode: None random subset | 'full' every field | 'single' exactly one field | 'empty'"""
    j = {}
    if mode == 'empty':
        return j
    fields = ['ts', 'cip', 'sip', 'qct', 'optrd', 'delay', 'qname', 'bail', 'pflags', 'asn', 'cc', 'rtt'] + \
             [n for n, _ in QR_SCALARS] + [n for n, _ in SIG_SCALARS] + RR_SECTIONS
    if mode == 'full':
        chosen = set(fields)
    elif mode == 'single':
        chosen = {r.choice(fields)}
    else:
        p = r.choice([0.15, 0.5, 0.85])
        chosen = {f for f in fields if r.random() < p}
    for f in [x for x in fields if x in chosen]:      # fixed order: set iteration depends on the per-process string hash seed
        if f == 'ts':
            j['ts'] = gen_ts(r, tps, base_ts)
        elif f == 'cip':
            j['cip'] = P.ip().hex()
        elif f == 'sip':
            j['sip'] = P.ip().hex()
        elif f == 'qct':
            j['qct'] = list(P.ct())
        elif f == 'optrd':
            j['optrd'] = P.rdata().hex()
        elif f == 'delay':
            j['delay'] = bound_int64(r)
        elif f == 'rtt':
            j['rtt'] = bound_int64(r)
        elif f == 'qname':
            j['qname'] = P.name().hex()
        elif f == 'bail':
            j['bail'] = P.name().hex()
        elif f == 'pflags':
            j['pflags'] = bound_uint(r, 8)
        elif f == 'asn':
            j['asn'] = utf8(r).hex()
        elif f == 'cc':
            j['cc'] = utf8(r, 4).hex()
        elif f in RR_SECTIONS:
            j[f] = gen_rrs(r, P, question=f in ('qq', 'rq'), full=(mode == 'full'))
        else:
            bits = dict(QR_SCALARS + SIG_SCALARS)[f]
            j[f] = bound_uint(r, bits)
    if j.get('qq') and 'rq' in j and r.random() < 0.2:
        # the response repeats the query's question section, names spelled in another letter case (a server that does not echo
        # 0x20-mixed case): equal for DNS, different byte strings for the file
        def flip(hx):
            b = bytes.fromhex(hx)
            return bytes((c ^ 0x20) if (65 <= c <= 90 or 97 <= c <= 122) and r.random() < 0.6 else c for c in b).hex()
        j['rq'] = [dict(q, n=flip(q['n'])) for q in j['qq']]
        if r.random() < 0.5:
            j['rq'] = [dict(q) for q in j['qq']]      # ... or byte-identical
    return j


def gen_aec(r, P, keys=None):
    if keys is not None and r.random() < 0.8:
        j = dict(r.choice(keys))
    else:
        j = {'t': r.choice([0, 1, 2, 3, 4, 5, 255, bound_uint(r, 8)]), 'ip': P.ip().hex()}
        if r.random() < 0.5:
            j['code'] = bound_uint(r, 8)
        if r.random() < 0.5:
            j['tf'] = bound_uint(r, 8)
    if r.random() < 0.3:
        j['cin'] = r.choice([1, 2, 7, 1000])       # stale count left in the input structure (must be ignored)
    return j


def gen_mm(r, P, tps, base_ts=None, mode=None):
    j = {}
    if mode == 'empty':
        return j
    p = 1.0 if mode == 'full' else r.choice([0.2, 0.5, 0.9])
    if r.random() < p: j['ts'] = gen_ts(r, tps, base_ts)
    if r.random() < p: j['cip'] = P.ip().hex()
    if r.random() < p: j['cport'] = bound_uint(r, 16)
    if r.random() < p: j['sip'] = P.ip().hex()
    if r.random() < p: j['sport'] = bound_uint(r, 16)
    if r.random() < p: j['tf'] = bound_uint(r, 8)
    if r.random() < p:
        k = r.random()
        j['pl'] = (r.choice([b'abc', b'', b'\x00\x01', b'payload-payload-payload-payload']) if k < 0.6 else
                   rbytes(r, r.choice([1, 15, 16, 23, 24, 255, 256, 1500]))).hex()
    return j


def gen_stats(r, allow_empty=True):
    k = r.random()
    if allow_empty and k < 0.15:
        return {}
    names = ['pm', 'qr', 'uq', 'ur', 'do', 'mi']
    if k < 0.4:
        return {n: bound_uint(r, 32) for n in names}
    return {n: bound_uint(r, 32) for n in names if r.random() < 0.5}


TPS_CHOICES = [1, 10, 1000, 10 ** 6, 10 ** 9]
MAX_CHOICES = [0, 1, 2, 3, 7, 50, 10000]


def gen_hints(r, style=None):
    style = style or r.choice(['default', 'default', 'zero', 'clear1', 'only1', 'random', 'random'])
    qrh, sigh, rrh, oth = ALL_QRH, ALL_SIGH, 3, 3
    if style == 'zero':
        qrh, sigh, rrh, oth = 0, 0, 0, 0
    elif style == 'clear1':
        w = r.randrange(4)
        if w == 0: qrh &= ~(1 << r.randrange(18))
        elif w == 1: sigh &= ~(1 << r.randrange(17))
        elif w == 2: rrh &= ~(1 << r.randrange(2))
        else: oth &= ~(1 << r.randrange(2))
    elif style == 'only1':
        qrh, sigh, rrh, oth = 0, 0, 0, 0
        w = r.randrange(4)
        if w == 0: qrh = 1 << r.randrange(18)
        elif w == 1: qrh, sigh = 1 << 4, 1 << r.randrange(17)
        elif w == 2: qrh, rrh = (1 << r.randrange(12, 18)), 1 << r.randrange(2)
        else: oth = 1 << r.randrange(2)
    elif style == 'random':
        qrh, sigh, rrh, oth = r.getrandbits(18), r.getrandbits(17), r.getrandbits(2), r.getrandbits(2)
    return qrh, sigh, rrh, oth


def gen_cp(r, mode=None):
    """collection parameters: {} = present but empty"""
    k = r.random() if mode is None else {'empty': 0.0, 'full': 0.99, 'partial': 0.5}[mode]
    if k < 0.2:
        return {}
    p = 1.0 if k > 0.8 else 0.5
    c = {}
    if r.random() < p: c['qto'] = bound_uint(r, 64)
    if r.random() < p: c['sto'] = bound_uint(r, 64)
    if r.random() < p: c['snap'] = bound_uint(r, 64)
    if r.random() < p: c['promisc'] = r.random() < 0.5
    if r.random() < p: c['ifs'] = [utf8(r).hex() for _ in range(r.randrange(1, 4))]
    if r.random() < p: c['saddr'] = [rbytes(r, r.choice([4, 16, 0, 7])).hex() for _ in range(r.randrange(1, 4))]
    if r.random() < p: c['vlan'] = [bound_uint(r, 16) for _ in range(r.randrange(1, 5))]
    if r.random() < p: c['filter'] = utf8(r, 40).hex()
    if r.random() < p: c['gen'] = utf8(r).hex()
    if r.random() < p: c['host'] = utf8(r).hex()
    return c


def gen_bp(r, tps=None, maxi=None, hints=None, rich=False):
    qrh, sigh, rrh, oth = hints if hints is not None else gen_hints(r)
    bp = {'tps': tps if tps is not None else (r.choice(TPS_CHOICES) if r.random() < 0.85 else r.randrange(1, 10 ** 9 + 1)),
          'max': maxi if maxi is not None else r.choice(MAX_CHOICES),
          'qrh': qrh, 'sigh': sigh, 'rrh': rrh, 'oth': oth,
          'opcodes': [0, 1, 2, 4, 5, 6], 'rrtypes': [1, 2, 5, 6, 12, 15, 16, 28, 33, 41]}
    if not rich and r.random() < 0.25:
        bp['cp'] = gen_cp(r)
    if rich:
        k = r.random()
        if k < 0.5:
            bp['opcodes'] = [bound_uint(r, 8) for _ in range(r.choice([0, 1, 3, 40]))]
            bp['rrtypes'] = [bound_uint(r, 16) for _ in range(r.choice([0, 1, 5, 40]))]
        p = r.choice([0.0, 0.5, 1.0])
        if r.random() < p: bp['sflags'] = bound_uint(r, 8)
        for k2 in ('cp4', 'cp6', 'sp4', 'sp6'):
            if r.random() < p: bp[k2] = bound_uint(r, 8)
        if r.random() < p: bp['samp'] = utf8(r, 30).hex()
        if r.random() < p: bp['anon'] = utf8(r, 30).hex()
        if r.random() < 0.7: bp['cp'] = gen_cp(r)
        if r.random() < 0.3:
            bp['tps'] = bound_uint(r, 64)
            bp['max'] = bound_uint(r, 64)
    return bp


def gen_preamble(r, nbps=None, rich=False, **kw):
    n = nbps if nbps is not None else r.choice([1, 1, 2, 3, 4])
    pre = {'major': 1, 'minor': 0, 'private': r.choice([None, 1, 0, 2, 255]) if rich or r.random() < 0.5 else 1,
           'bps': [gen_bp(r, rich=rich, **kw) for _ in range(n)]}
    if rich:
        pre['major'] = bound_uint(r, 8)
        pre['minor'] = bound_uint(r, 8)
    return pre


# ------------------------------------------------------------------------------------------------ histories

def gen_history(r, cid, nops=None, comp=None, kind=None, rotations=True, direct=True, addbp=True, big=False,
                preamble=None, stats_p=0.35, empties=True, max_ops=120, weights=None, huge=0.0):
    """An exporter API history respecting the two documented caller duties.  The reference model is stepped
    alongside so that timestamps are normalised for the tick rate of the block they will be stored in."""
    from .model import ExporterModel
    P = Pools(r, big=big, huge=huge)
    pre = preamble or gen_preamble(r)
    case = {'id': cid, 'preamble': pre,
            'open': {'id': 'o0', 'kind': kind or r.choice(['name', 'fd']), 'comp': comp or r.choice(['none', 'none', 'gzip', 'xz'])},
            'ops': []}
    nops = nops if nops is not None else r.choice([3, 10, 30, max_ops])
    m = ExporterModel(pre)
    nout = 1
    base_ts = r.randrange(10 ** 9, 2 * 10 ** 9) if r.random() > 0.04 else 0     # some histories play at the epoch itself (instants (0,0))
    aec_keys = [gen_aec(r, P) for _ in range(3)]
    w = dict(qr=45, aec=13, mm=12, wb=8, counters=5, setactive=5, addbp=3, dblock=4, rotate=5, edit=0, rotate_bad=0)
    if weights:
        w.update(weights)
    if not rotations: w['rotate'] = 0; w['edit'] = 0; w['rotate_bad'] = 0
    if not direct: w['dblock'] = 0
    if not addbp: w['addbp'] = 0
    kinds, wts = zip(*[(k, v) for k, v in w.items() if v > 0])
    for i in range(nops):
        k = r.choices(kinds, wts)[0]
        bp = m.block.bp
        tps = bp['tps'] or 1
        usable = m.outputs[-1]['nbps'] if m.blocks_written > 0 else len(m.bps)
        st = gen_stats(r, allow_empty=empties) if r.random() < stats_p else None
        if k == 'qr':
            mode = r.choice([None, None, None, 'full', 'single', 'empty'])
            op = {'op': 'qr', 'r': gen_qr(r, P, tps, base_ts, mode)}
            if st is not None: op['st'] = st
        elif k == 'aec':
            op = {'op': 'aec', 'r': gen_aec(r, P, aec_keys)}
            if st is not None and bp['oth'] & 2: op['st'] = st
        elif k == 'mm':
            op = {'op': 'mm', 'r': gen_mm(r, P, tps, base_ts, r.choice([None, None, 'full', 'empty']))}
            if st is not None and bp['oth'] & 1: op['st'] = st
        elif k == 'wb':
            op = {'op': 'wb'}
        elif k == 'counters':
            op = {'op': 'counters'}
        elif k == 'setactive':
            idx = r.randrange(0, usable) if r.random() < 0.9 else len(m.bps) + r.randrange(0, 2)
            op = {'op': 'setactive', 'idx': idx}
        elif k == 'addbp':
            if len(m.bps) >= 6:
                op = {'op': 'counters'}
            else:
                op = {'op': 'addbp', 'bp': gen_bp(r)}
                hw = r.random()
                if hw < 0.2:
                    op['how'] = 'clone_active'
                elif hw < 0.35 and op['bp']['max'] < 2 ** 63:
                    op['how'] = 'twice'
        elif k == 'dblock':
            bi = r.randrange(0, usable)
            op = {'op': 'dblock', 'bp': bi, 'items': gen_direct_items(r, P, m.bps[bi], base_ts, empties)}
            how = r.choice(['direct', 'direct', 'movector', 'moveassign', 'copyctor', 'copyassign'])
            if how != 'direct':
                op['how'] = how
        elif k == 'rotate_bad':
            # a rotation that fails to open its destination, then the application rotates to a good one
            op = {'op': 'rotate_bad', 'id': 'v%d' % nout, 'export': r.random() < 0.5}
            m.apply(op, i)
            case['ops'].append(op)
            op = {'op': 'rotate', 'id': 'o%d' % nout, 'export': False}
            nout += 1
        elif k == 'edit':
            # hints edited in place through get_active_block_parameters_ref() and taken into use by a rotation:
            # flush first so that no block filtered under the old hints is pending
            qrh, sigh, rrh, oth = gen_hints(r)
            ed = {'op': 'edithints', 'qrh': qrh, 'sigh': sigh, 'rrh': rrh, 'oth': oth}
            if r.random() < 0.6:
                # tick rate and block size edited in place as well (same parameter index, new content)
                ed['tps'] = r.choice([x for x in (1, 1000, 10 ** 6, 10 ** 9) if x != tps] + [r.randrange(1, 10 ** 9 + 1)])
                ed['max'] = r.choice(MAX_CHOICES)
            for op in ({'op': 'wb'}, ed):
                m.apply(op, i)
                case['ops'].append(op)
            op = {'op': 'rotate', 'id': 'o%d' % nout, 'export': True}
            nout += 1
        else:
            # some destination names contain ".part" themselves (dump.part2, a directory incoming.partial/ ...)
            oid = ('o%d' % nout) if r.random() > 0.15 else r.choice(['o%d.part%d', 'o%d.partial', 'x.part.o%d.part']).replace('%d', str(nout))
            op = {'op': 'rotate', 'id': oid, 'export': r.random() < 0.5}
            nout += 1
        m.apply(op, i)
        case['ops'].append(op)
    return case


def gen_direct_items(r, P, bp, base_ts, empties=True):
    """items of a directly built block; raw items exercise present-but-empty structures"""
    tps = bp['tps'] or 1
    items = []
    for _ in range(r.choice([1, 1, 2, 4])):
        k = r.random()
        if k < 0.3:
            items.append({'k': 'qr', 'r': gen_qr(r, P, tps, base_ts)})
        elif k < 0.4:
            items.append({'k': 'aec', 'r': gen_aec(r, P)})
        elif k < 0.5:
            items.append({'k': 'mm', 'r': gen_mm(r, P, tps, base_ts)})
        elif k < 0.8:
            q = {}
            if r.random() < 0.5: q['ts'] = gen_ts(r, tps, base_ts)
            if r.random() < 0.5: q['cip'] = P.ip().hex()
            if r.random() < 0.3: q['cport'] = bound_uint(r, 16)
            if r.random() < 0.5:
                q['sig'] = {} if (empties and r.random() < 0.4) else {'sip': P.ip().hex(), 'sport': 53, 'qct': list(P.ct())}
            if r.random() < 0.5:
                q['rpd'] = {} if (empties and r.random() < 0.5) else {'bail': P.name().hex(), 'pflags': 1}
            for e in ('qext', 'rext'):
                if r.random() < 0.4:
                    if empties and r.random() < 0.4:
                        q[e] = {}
                    else:
                        x = {}
                        if r.random() < 0.6: x['q'] = gen_rrs(r, P, True, allow_empty=empties)
                        if r.random() < 0.6: x['an'] = gen_rrs(r, P, False, allow_empty=empties)
                        if r.random() < 0.3: x['ad'] = gen_rrs(r, P, False, allow_empty=empties)
                        q[e] = x
            if r.random() < 0.2: q['asn'] = utf8(r).hex()
            if not q:
                q['tid'] = 7
            items.append({'k': 'rawqr', 'r': q})
        elif k < 0.92:
            m = {}
            if r.random() < 0.5: m['ts'] = gen_ts(r, tps, base_ts)
            if r.random() < 0.5: m['cip'] = P.ip().hex()
            if r.random() < 0.6:
                m['mmd'] = {} if (empties and r.random() < 0.5) else {'sip': P.ip().hex(), 'pl': 'abcd'}
            if not m:
                m['cport'] = 1
            items.append({'k': 'rawmm', 'r': m})
        elif bp['oth'] & 2:
            items.append({'k': 'rawaec', 'r': gen_aec(r, P)})
        else:
            items.append({'k': 'qr', 'r': gen_qr(r, P, tps, base_ts, 'full')})
        if r.random() < 0.3:
            items[-1]['st'] = gen_stats(r, allow_empty=empties)
    return items
