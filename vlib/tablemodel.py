"""Reference model of the nine block tables (list + dict) and generators of table values / histories (C11, C19)."""
import json

from . import gen

TABLES = ['ip', 'ct', 'nr', 'sig', 'qlist', 'q', 'rrlist', 'rr', 'mmd']
DUMP_NAME = {'ip': 'ip', 'ct': 'ct', 'nr': 'nr', 'sig': 'sig', 'qlist': 'qlist', 'q': 'qrr', 'rrlist': 'rrlist', 'rr': 'rr', 'mmd': 'mmd'}
SIG_FIELDS = [('sai', 32), ('sport', 16), ('tflags', 8), ('qtype', 8), ('sigflags', 8), ('opcode', 8), ('dnsflags', 16), ('qrcode', 16), ('qcti', 32),
              ('qd', 16), ('an', 32), ('ns', 16), ('ar', 16), ('edns', 8), ('udp', 16), ('optrdi', 32), ('rrcode', 16)]


def key(v):
    return json.dumps(v, sort_keys=True)


class BlockModel(object):
    def __init__(self):
        self.t = {k: [] for k in TABLES}
        self.idx = {k: {} for k in TABLES}

    def add(self, table, v):
        k = key(v)
        d = self.idx[table]
        if k in d:
            return d[k]
        self.t[table].append(v)
        d[k] = len(self.t[table]) - 1
        return d[k]

    def get(self, table, i):
        if i < len(self.t[table]):
            return self.t[table][i]
        return {'exc': 'std::runtime_error'}

    def clear(self):
        self.__init__()

    def copy(self):
        m = BlockModel()
        m.t = {k: list(v) for k, v in self.t.items()}
        m.idx = {k: dict(v) for k, v in self.idx.items()}
        return m

    def tables_dump(self):
        return json.loads(json.dumps({DUMP_NAME[k]: v for k, v in self.t.items()}))


class ValueGen(object):
    def __init__(self, r, big=False):
        self.r = r
        self.big = big
        self.pools = {k: [self.fresh(k) for _ in range(r.randrange(3, 9))] for k in TABLES}
        # values that differ in exactly one member / carry the same number in different members (equal hashes)
        self.pools['sig'] += [{'sport': 53}, {'qrcode': 53}, {'udp': 53}, {'sport': 53, 'qrcode': 53}, {}, {'sai': 0}, {'qcti': 0}, {'optrdi': 0},
                              {'rrcode': 0}, {'sport': 53, 'rrcode': 0}, {'sport': 53, 'rrcode': 53}, {'edns': 0}, {'opcode': 0}, {'tflags': 0}, {'qtype': 0}, {'sigflags': 0}]
        self.pools['rr'] += [{'n': 1, 'c': 1}, {'n': 1, 'c': 1, 'ttl': 0}, {'n': 1, 'c': 1, 'rdi': 0}, {'n': 1, 'c': 1, 'ttl': 0, 'rdi': 0}]
        self.pools['mmd'] += [{}, {'pl': ''}, {'pl': '00'}, {'sport': 7}, {'sai': 7}, {'tf': 7}, {'pl': '616263'}, {'pl': '616263', 'sport': 1}]
        self.pools['qlist'] += [[], [0], [0, 0]]
        self.pools['rrlist'] += [[], [0], [1, 0]]
        self.pools['ip'] += ['', '00', '0000']
        self.pools['nr'] += ['', '00', '0000']

    def fresh(self, table):
        r = self.r
        if table in ('ip', 'nr'):
            if r.random() < 0.4:
                return gen.rbytes(r, r.randrange(0, 200)).hex()         # every length: the hash walks its input in steps of 8/4/2/1 bytes
            return gen.rbytes(r, r.choice([0, 1, 4, 16, 23, 24, 40, 300 if r.random() < 0.05 else 5])).hex()
        if table == 'ct':
            return [gen.bound_uint(r, 16), gen.bound_uint(r, 16)]
        if table == 'sig':
            p = r.choice([0.1, 0.5, 1.0])
            return {f: gen.bound_uint(r, b) for f, b in SIG_FIELDS if r.random() < p}
        if table in ('qlist', 'rrlist'):
            return [gen.bound_uint(r, 32) if r.random() < 0.3 else r.randrange(0, 6) for _ in range(r.choice([0, 1, 2, 5]) if r.random() < 0.7 else r.randrange(0, 40))]
        if table == 'q':
            return [gen.bound_uint(r, 32) if r.random() < 0.3 else r.randrange(4), r.randrange(4)]
        if table == 'rr':
            j = {'n': r.randrange(4), 'c': r.randrange(4)}
            if r.random() < 0.5: j['ttl'] = gen.bound_uint(r, 32)
            if r.random() < 0.5: j['rdi'] = r.randrange(5)
            return j
        if table == 'mmd':
            j = {}
            if r.random() < 0.5: j['sai'] = r.randrange(5)
            if r.random() < 0.5: j['sport'] = gen.bound_uint(r, 16)
            if r.random() < 0.5: j['tf'] = gen.bound_uint(r, 8)
            if r.random() < 0.6: j['pl'] = gen.rbytes(r, r.choice([0, 1, 3, 15, 16, 40]) if r.random() < 0.6 else r.randrange(0, 200)).hex()
            return j
        raise ValueError(table)

    def value(self, table):
        if self.big or self.r.random() < 0.2:
            return self.fresh(table)
        return self.r.choice(self.pools[table])
