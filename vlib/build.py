"""Instrumented builds of the repository's *current working tree*, cached by content hash.

Every check calls ensure(flavour) first: the sources under $VERIF_REPO (default /repo) are hashed
together with the flags; an unchanged tree reuses the cached build, a changed one (edited file,
injected mutant) gets a new key and is rebuilt under a file lock.  A compile failure raises
BuildError (the caller exits 2: inconclusive, never "held").
"""
import concurrent.futures as cf
import fcntl
import glob
import hashlib
import os
import shutil
import subprocess
import sys
import time

VERIF = os.path.dirname(os.path.dirname(os.path.abspath(__file__)))
CACHE = os.path.join(VERIF, '.cache')
DRV = os.path.join(VERIF, 'drv')
GUARD = 'CDNS_VERIF'


def repo():
    return os.environ.get('VERIF_REPO', '/repo')


class BuildError(Exception):
    pass


COMMON = ['-std=c++14', '-g', '-msse4', '-D' + GUARD, '-Wno-everything', '-fno-omit-frame-pointer']

FLAVOURS = {
    # address + undefined together; alignment off (hash.h crc32 loads, x86-only library, see DESIGN 2.1);
    # object-size off (clang-14 false alarm on empty classes); libstdc++ assertions on so that
    # out-of-range operator[] inside SSO strings / vectors (invisible to red zones) aborts.
    'asan': dict(cxx='clang++-14', flags=COMMON + ['-O1', '-fsanitize=address,undefined',
                 '-fno-sanitize=alignment,object-size', '-fno-sanitize-recover=all', '-D_GLIBCXX_ASSERTIONS'],
                 ld=['-fsanitize=address,undefined']),
    'tsan': dict(cxx='clang++-14', flags=COMMON + ['-O1', '-fsanitize=thread'], ld=['-fsanitize=thread']),
    'plain': dict(cxx='g++', flags=['-std=c++14', '-g', '-msse4', '-D' + GUARD, '-w', '-O1', '-fno-omit-frame-pointer'], ld=[]),
    'fuzz': dict(cxx='clang++-14', flags=COMMON + ['-O1', '-fsanitize=fuzzer-no-link,address,undefined',
                 '-fno-sanitize=alignment,object-size', '-fno-sanitize-recover=all', '-D_GLIBCXX_ASSERTIONS'],
                 ld=['-fsanitize=fuzzer,address,undefined']),
    'cov': dict(cxx='clang++-14', flags=COMMON + ['-O0', '-fprofile-instr-generate', '-fcoverage-mapping'],
                ld=['-fprofile-instr-generate']),
}
LIBS = ['-lz', '-llzma', '-lpthread', '-ldl']


def _sha(paths, extra=''):
    h = hashlib.sha256()
    h.update(extra.encode())
    for p in sorted(paths):
        h.update(os.path.basename(p).encode() + b'\0')
        with open(p, 'rb') as f:
            h.update(f.read())
        h.update(b'\0')
    return h.hexdigest()[:16]


def lib_sources():
    r = repo()
    return sorted(glob.glob(r + '/src/*.cpp')), sorted(glob.glob(r + '/src/*.h')), sorted(glob.glob(r + '/src/bin/*.cpp'))


def _run(cmd, log):
    p = subprocess.run(cmd, stdout=subprocess.PIPE, stderr=subprocess.STDOUT)
    if p.returncode != 0:
        with open(log, 'ab') as f:
            f.write((' '.join(cmd) + '\n').encode() + p.stdout + b'\n')
        raise BuildError('command failed: %s\n%s' % (' '.join(cmd), p.stdout.decode(errors='replace')[-4000:]))


def _compile_many(jobs, log):
    # jobs: list of argv
    with cf.ThreadPoolExecutor(max_workers=16) as ex:
        futs = [ex.submit(_run, j, log) for j in jobs]
        errs = []
        for f in futs:
            try:
                f.result()
            except BuildError as e:
                errs.append(e)
        if errs:
            raise errs[0]


def _locked(path):
    os.makedirs(CACHE, exist_ok=True)
    f = open(path, 'w')
    fcntl.flock(f, fcntl.LOCK_EX)
    return f


def _prune(prefix, keep):
    """bound the cache: drop the oldest builds, but never one that was used within the last hour (other
    checks - or a mutant trial with VERIF_REPO - may be running from it)"""
    ds = sorted(glob.glob(os.path.join(CACHE, prefix + '-*')), key=lambda d: os.path.getmtime(d))
    now = time.time()
    for d in ds[:-keep] if len(ds) > keep else []:
        if os.path.isdir(d) and now - os.path.getmtime(d) > 3600:
            shutil.rmtree(d, ignore_errors=True)


def ensure_lib(flavour):
    fl = FLAVOURS[flavour]
    cpps, hdrs, bins = lib_sources()
    if not cpps:
        raise BuildError('no sources under %s/src' % repo())
    key = _sha(cpps + hdrs + bins, flavour + ' '.join(fl['flags']) + fl['cxx'])
    d = os.path.join(CACHE, 'lib-%s-%s' % (flavour, key))
    if os.path.exists(os.path.join(d, 'OK')):
        os.utime(d)
        return d
    lock = _locked(os.path.join(CACHE, 'lib-%s.lock' % flavour))
    try:
        if os.path.exists(os.path.join(d, 'OK')):
            return d
        shutil.rmtree(d, ignore_errors=True)
        os.makedirs(d)
        log = os.path.join(d, 'build.log')
        t0 = time.time()
        jobs, objs = [], []
        for c in cpps:
            o = os.path.join(d, os.path.basename(c)[:-4] + '.o')
            objs.append(o)
            jobs.append([fl['cxx']] + fl['flags'] + ['-I' + repo() + '/src', '-c', c, '-o', o])
        bobjs = []
        if flavour in ('asan', 'plain'):
            for b in bins:
                o = os.path.join(d, 'bin_' + os.path.basename(b)[:-4] + '.o')
                bobjs.append((b, o))
                jobs.append([fl['cxx']] + fl['flags'] + ['-I' + repo() + '/src', '-c', b, '-o', o])
        _compile_many(jobs, log)
        _run(['ar', 'rcs', os.path.join(d, 'libcdns.a')] + objs, log)
        jobs = []
        for b, o in bobjs:
            name = os.path.basename(b)[:-4].replace('_', '-')
            jobs.append([fl['cxx']] + fl['ld'] + [o, os.path.join(d, 'libcdns.a')] + LIBS + ['-o', os.path.join(d, name)])
        _compile_many(jobs, log)
        for o in objs + [o for _, o in bobjs]:
            os.unlink(o)
        with open(os.path.join(d, 'OK'), 'w') as f:
            f.write('%.1f\n' % (time.time() - t0))
        _prune('lib-' + flavour, 6)
        return d
    finally:
        lock.close()


def ensure(flavour, drivers=('vdrv',)):
    """Return (driver_dir, lib_dir).  Driver executables are <driver_dir>/<name>."""
    libd = ensure_lib(flavour)
    fl = FLAVOURS[flavour]
    srcs = sorted(glob.glob(DRV + '/*.cpp')) + sorted(glob.glob(DRV + '/*.h'))
    key = _sha(srcs, os.path.basename(libd) + flavour)
    d = os.path.join(CACHE, 'drv-%s-%s' % (flavour, key))
    if os.path.exists(os.path.join(d, 'OK')):
        os.utime(d)
        return d, libd
    lock = _locked(os.path.join(CACHE, 'drv-%s.lock' % flavour))
    try:
        if os.path.exists(os.path.join(d, 'OK')):
            return d, libd
        shutil.rmtree(d, ignore_errors=True)
        os.makedirs(d)
        log = os.path.join(d, 'build.log')
        t0 = time.time()
        # vdrv = all drv/d_*.cpp ; other executables = drv/x_<name>.cpp (own main)
        parts = sorted(glob.glob(DRV + '/d_*.cpp'))
        extra = sorted(glob.glob(DRV + '/x_*.cpp'))
        if flavour == 'fuzz':
            parts, extra = [], sorted(glob.glob(DRV + '/f_*.cpp'))
        elif flavour == 'tsan':
            extra = [e for e in extra if 'tsan' in os.path.basename(e)]
        else:
            extra = [e for e in extra if 'tsan' not in os.path.basename(e)]
        jobs, objs = [], []
        for c in parts + extra:
            o = os.path.join(d, os.path.basename(c)[:-4] + '.o')
            objs.append(o)
            jobs.append([fl['cxx']] + fl['flags'] + ['-I' + repo() + '/src', '-I' + DRV, '-c', c, '-o', o])
        _compile_many(jobs, log)
        jobs = []
        if parts:
            po = [os.path.join(d, os.path.basename(c)[:-4] + '.o') for c in parts]
            jobs.append([fl['cxx']] + fl['ld'] + ['-rdynamic'] + po + [os.path.join(libd, 'libcdns.a')] + LIBS + ['-o', os.path.join(d, 'vdrv')])
        for e in extra:
            o = os.path.join(d, os.path.basename(e)[:-4] + '.o')
            jobs.append([fl['cxx']] + fl['ld'] + ['-rdynamic', o, os.path.join(libd, 'libcdns.a')] + LIBS + ['-o', os.path.join(d, os.path.basename(e)[2:-4])])
        _compile_many(jobs, log)
        for o in objs:
            os.unlink(o)
        with open(os.path.join(d, 'OK'), 'w') as f:
            f.write('%.1f\n' % (time.time() - t0))
        _prune('drv-' + flavour, 6)
        return d, libd
    finally:
        lock.close()


def source_fingerprint():
    cpps, hdrs, bins = lib_sources()
    return _sha(cpps + hdrs + bins)


if __name__ == '__main__':
    for fl in (sys.argv[1:] or ['asan', 'tsan', 'plain']):
        t = time.time()
        print(fl, ensure(fl), '%.1fs' % (time.time() - t))
