"""evidence/<id>.json writer (checked against the required keys of EVIDENCE.schema.json before writing)."""
import json
import os

VERIF = os.path.dirname(os.path.dirname(os.path.abspath(__file__)))


def write(prop, tier, seed, level, coverage, wall_s, violations, assumptions=None):
    cov = dict(coverage)
    for k in ('evaluations', 'distinct_nontrivial'):
        cov[k] = int(cov.get(k, 0))
    cov.setdefault('rule', '')
    cov.setdefault('samples', [])
    ev = {'property_id': prop, 'tier': tier, 'seed': int(seed), 'level': level, 'coverage': cov,
          'wall_s': round(float(wall_s), 2), 'violations': int(violations), 'assumptions': assumptions or []}
    # runs against another source tree (VERIF_REPO: mutant trials) must not overwrite the evidence of /repo
    sub = 'evidence' if os.path.realpath(os.environ.get('VERIF_REPO', '/repo')) == '/repo' else os.path.join('.work', 'evidence-alt')
    os.makedirs(os.path.join(VERIF, sub), exist_ok=True)
    path = os.path.join(VERIF, sub, prop + '.json')
    tmp = path + '.tmp'
    with open(tmp, 'w') as f:
        json.dump(ev, f, indent=1, sort_keys=True, default=str)
        f.write('\n')
    os.replace(tmp, path)
    return path


def valid_enough(cov):
    return cov.get('evaluations', 0) >= 1 and cov.get('distinct_nontrivial', 0) >= 2 and len(cov.get('samples', [])) >= 1
