"""Executable reference models (written from the documented API behaviour and RFC 8618, not from the code).

ExporterModel: what CdnsExporter must do with a history: which records are stored under which hints, when a
block is flushed, what the counters say, which blocks end up in which output.
"""
import copy

SIG_BITS = {'sip': 0, 'sport': 1, 'tflags': 2, 'qtype': 3, 'sigflags': 4, 'opcode': 5, 'dnsflags': 6, 'qrcode': 7, 'qct': 8,
            'qd': 9, 'an': 10, 'ns': 11, 'ar': 12, 'edns': 13, 'udp': 14, 'optrd': 15, 'rrcode': 16}
QR_BITS = {'ts': 0, 'cip': 1, 'cport': 2, 'tid': 3, 'hop': 5, 'delay': 6, 'qname': 7, 'qsize': 8, 'rsize': 9}
RPD_FIELDS = ('bail', 'pflags')            # bit 10
SECTION_BITS = {'qq': 11, 'rq': 11, 'qan': 12, 'qau': 13, 'qad': 14, 'ran': 15, 'rau': 16, 'rad': 17}
ALWAYS = ('asn', 'cc', 'rtt')             # implementation specific members have no hint bit


def filter_rr(rr, rrh, question):
    j = {'n': rr['n'], 't': rr['t'], 'c': rr['c']}
    if not question:
        if 'ttl' in rr and rrh & 1:
            j['ttl'] = rr['ttl']
        if 'rd' in rr and rrh & 2:
            j['rd'] = rr['rd']
    return j


def filter_qr(r, bp):
    """the record as it must read back under bp's hints; {} when nothing is storable"""
    qrh, sigh, rrh = bp['qrh'], bp['sigh'], bp['rrh']
    j = {}
    for f, b in QR_BITS.items():
        if f in r and qrh >> b & 1:
            j[f] = r[f]
    if qrh >> 4 & 1:
        for f, b in SIG_BITS.items():
            if f in r and sigh >> b & 1:
                j[f] = r[f]
    if qrh >> 10 & 1:
        for f in RPD_FIELDS:
            if f in r:
                j[f] = r[f]
    for f, b in SECTION_BITS.items():
        if f in r and r[f] and qrh >> b & 1:
            j[f] = [filter_rr(x, rrh, f in ('qq', 'rq')) for x in r[f]]
    for f in ALWAYS:
        if f in r:
            j[f] = r[f]
    return j


def raw_qr_generic(q, bp):
    """what a directly built QueryResponse (raw item of the export driver) reads back as; no hint filtering for
    the members themselves, RR hints apply inside add_generic_rrlist"""
    rrh = bp['rrh']
    j = {}
    for f in ('ts', 'cip', 'cport', 'tid', 'hop', 'delay', 'qname', 'qsize', 'rsize', 'asn', 'cc', 'rtt'):
        if f in q:
            j[f] = q[f]
    if 'sig' in q:
        for f in SIG_BITS:
            if f in q['sig']:
                j[f] = q['sig'][f]
    if 'rpd' in q:
        for f in RPD_FIELDS:
            if f in q['rpd']:
                j[f] = q['rpd'][f]
    for e, pre in (('qext', 'q'), ('rext', 'r')):
        if e in q:
            for s, question in (('q', True), ('an', False), ('au', False), ('ad', False)):
                if s in q[e] and q[e][s]:
                    j[pre + s] = [filter_rr(x, rrh, question) for x in q[e][s]]
    return j


def raw_mm_generic(m):
    j = {}
    for f in ('ts', 'cip', 'cport'):
        if f in m:
            j[f] = m[f]
    if 'mmd' in m:
        for f in ('sip', 'sport', 'tf', 'pl'):
            if f in m['mmd']:
                j[f] = m['mmd'][f]
    return j


def aec_key(a):
    return (a['t'], a.get('code'), a.get('tf'), a['ip'])


def norm_record(j):
    """modulo 'empty section list == absent'"""
    return {k: v for k, v in j.items() if not (isinstance(v, list) and k in SECTION_BITS and len(v) == 0)}


class Block(object):
    def __init__(self, bpi, bp=None):
        self.bpi = bpi
        self.bp = dict(bp) if bp is not None else None     # parameters the block was armed with (its own copy)
        self.qr, self.mm = [], []
        self.aec = {}          # key -> count (insertion ordered)
        self.stats = None
        self.src = []          # (kind, op index) of contributing submissions, for conservation checks

    def items(self):
        return len(self.qr) + len(self.aec) + len(self.mm)

    def as_expected(self):
        return {'bpi': self.bpi, 'qr': [norm_record(x) for x in self.qr], 'mm': list(self.mm),
                'aec': sorted(([k[0], k[1], k[2], k[3], c] for k, c in self.aec.items()), key=repr),
                'stats': self.stats}


class ExporterModel(object):
    def __init__(self, preamble, first_output='o0'):
        self.bps = [dict(b) for b in preamble['bps']]
        self.active = 0
        self.block = Block(0, self.bps[0])
        self.blocks_written = 0
        self.outputs = [{'id': first_output, 'blocks': [], 'nbps': len(self.bps), 'closed_by': None, 'bps_header': None}]
        self.flushes_by_size = 0
        self.flushes_explicit = 0

    # --- helpers
    def _bp(self):
        return self.block.bp

    def _full(self):
        m = self._bp()['max']
        b = self.block
        return len(b.qr) >= m or len(b.aec) >= m or len(b.mm) >= m

    def _emit(self, blk):
        out = self.outputs[-1]
        if self.blocks_written == 0:
            out['nbps'] = len(self.bps)      # the header is written with the first block
            out['bps_header'] = [dict(b) for b in self.bps]
        out['blocks'].append(blk)
        self.blocks_written += 1

    def _write_block(self):
        wrote = False
        if self.block.items() > 0:
            self._emit(self.block)
            wrote = True
        self.block = Block(self.active, self.bps[self.active])
        return wrote

    def counters(self):
        b = self.block
        return {'items': b.items(), 'qr': len(b.qr), 'aec': len(b.aec), 'mm': len(b.mm), 'blocks': self.blocks_written,
                'active': self.active}

    # --- API
    def apply(self, op, i=None):
        """returns dict of expectations for this call: {'wrote': bool} (ret non-zero iff wrote) and more"""
        o = op['op']
        if o == 'qr':
            rec = filter_qr(op['r'], self._bp())
            if rec and 'ts' in rec and self._bp()['tps'] == 0:
                # a time offset cannot be expressed at tick rate 0: the record is refused (std::runtime_error), nothing changes
                return {'wrote': False, 'stored': False, 'throws': True}
            if rec:
                self.block.qr.append(rec)
                self.block.src.append(('qr', i))
            if op.get('st') is not None:
                self.block.stats = op['st']
            wrote = False
            if self._full():
                wrote = self._write_block()
                self.flushes_by_size += 1 if wrote else 0
            return {'wrote': wrote, 'stored': bool(rec)}
        if o == 'aec':
            if not self._bp()['oth'] & 2:
                return {'wrote': False, 'stored': False}
            k = aec_key(op['r'])
            self.block.aec[k] = self.block.aec.get(k, 0) + 1
            self.block.src.append(('aec', i))
            if op.get('st') is not None:
                self.block.stats = op['st']
            wrote = False
            if self._full():
                wrote = self._write_block()
                self.flushes_by_size += 1 if wrote else 0
            return {'wrote': wrote, 'stored': True}
        if o == 'mm':
            if not self._bp()['oth'] & 1:
                return {'wrote': False, 'stored': False}
            rec = dict(op['r'])
            if 'ts' in rec and self._bp()['tps'] == 0:
                return {'wrote': False, 'stored': False, 'throws': True}
            if rec:
                self.block.mm.append(rec)
                self.block.src.append(('mm', i))
            if op.get('st') is not None:
                self.block.stats = op['st']
            wrote = False
            if self._full():
                wrote = self._write_block()
                self.flushes_by_size += 1 if wrote else 0
            return {'wrote': wrote, 'stored': bool(rec)}
        if o == 'wb':
            wrote = self._write_block()
            self.flushes_explicit += 1 if wrote else 0
            return {'wrote': wrote}
        if o == 'setactive':
            ok = op['idx'] < len(self.bps)
            if ok:
                self.active = op['idx']
            return {'ret': ok}
        if o == 'addbp':
            how = op.get('how', 'plain')
            if how == 'clone_active':
                import copy
                self.bps.append(copy.deepcopy(self.bps[self.active]))
            else:
                self.bps.append(dict(op['bp']))
                if how == 'twice':
                    self.bps.append(dict(op['bp'], max=op['bp']['max'] + 1))
            return {'ret': len(self.bps) - 1}
        if o == 'counters':
            return self.counters()
        if o == 'edithints':
            # in-place edit through get_active_block_parameters_ref(): affects blocks armed from now on
            for k in ('qrh', 'sigh', 'rrh', 'oth', 'tps', 'max'):
                if k in op:
                    self.bps[self.active][k] = op[k]
            return {}
        if o == 'dblock':
            dbp = self.bps[op['bp']]
            if dbp['tps'] == 0 and any('ts' in it['r'] and (it['k'] != 'qr' or 'ts' in (filter_qr(it['r'], dbp) or {}))
                                       and (it['k'] != 'mm' or dbp['oth'] & 1) for it in op['items'] if it['k'] in ('qr', 'mm', 'rawqr', 'rawmm')):
                return {'wrote': False, 'throws': True}      # the application's add_* call is refused, it does not write the block
            blk = self.direct_block(op)
            wrote = False
            if blk.items() > 0:
                self._emit(blk)
                wrote = True
            return {'wrote': wrote}
        if o == 'rotate_bad':
            # rotation to a destination that cannot be opened: the current output is closed, there is no output until the next rotation
            wrote = False
            if op['export']:
                wrote = self._write_block()
            closing = self.blocks_written > 0
            self.outputs[-1]['closed_by'] = 'rotate'
            self.outputs.append({'id': op['id'], 'blocks': [], 'nbps': len(self.bps), 'closed_by': None, 'bps_header': None, 'void': True})
            self.blocks_written = 0
            return {'wrote': wrote or closing, 'throws': True}
        if o == 'rotate':
            wrote = False
            if op['export']:
                wrote = self._write_block()
            closing = self.blocks_written > 0
            self.outputs[-1]['closed_by'] = 'rotate'
            self.outputs.append({'id': op['id'], 'blocks': [], 'nbps': len(self.bps), 'closed_by': None, 'bps_header': None})
            self.blocks_written = 0
            return {'wrote': wrote or closing, 'break': closing}
        raise ValueError(o)

    def direct_block(self, op):
        bp = self.bps[op['bp']]
        b = Block(op['bp'], bp)
        for it in op['items']:
            k, r, st = it['k'], it['r'], it.get('st')
            if k == 'qr':
                rec = filter_qr(r, bp)
                if rec:
                    b.qr.append(rec)
                if st is not None:
                    b.stats = st
            elif k == 'aec' or k == 'rawaec':
                if bp['oth'] & 2:
                    key = aec_key(r)
                    b.aec[key] = b.aec.get(key, 0) + 1
                    if st is not None:
                        b.stats = st
            elif k == 'mm':
                if bp['oth'] & 1:
                    if r:
                        b.mm.append(dict(r))
                    if st is not None:
                        b.stats = st
            elif k == 'rawqr':
                b.qr.append(raw_qr_generic(r, bp))
                if st is not None:
                    b.stats = st
            elif k == 'rawmm':
                b.mm.append(raw_mm_generic(r))
                if st is not None:
                    b.stats = st
        return b

    def finish(self):
        """destruction: nothing more is written except the closing break"""
        self.outputs[-1]['closed_by'] = 'destroy'
        return self.outputs


def expected_outputs(case):
    """run the model over a whole case; returns (per-op expectations, outputs, model)"""
    m = ExporterModel(case['preamble'], case['open']['id'])
    exp = []
    for i, op in enumerate(case['ops']):
        exp.append(m.apply(op, i))
    return exp, m.finish(), m


def canon_block(b):
    """canonical comparable form of a block dump (read driver or independent interpreter)"""
    return {'bpi': b['bpi'] if b['bpi'] is not None else 0,
            'qr': [norm_record(x) for x in b['qr']], 'mm': b['mm'],
            'aec': sorted(([a['t'], a.get('code'), a.get('tf'), a['ip'], a['cnt']] for a in b['aec']), key=repr),
            'stats': b['stats']}
