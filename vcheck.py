#!/usr/bin/env python3
"""Entry point of the verification machinery.

  vcheck.py C01 --tier quick|thorough     run one check (VERIF_SEED, VERIF_TIER honoured)
  vcheck.py setup                         build all instrumented flavours of /repo's working tree
  vcheck.py baseline                      repository test suite with the hook guard OFF vs BASELINE.json
  vcheck.py replay <file>                 re-run the case recorded in a replay file
exit 0 = held on everything explored, 1 = violation (VIOLATION line), 2 = inconclusive / harness failure
"""
import importlib
import json
import os
import subprocess
import sys
import time
import traceback

HERE = os.path.dirname(os.path.abspath(__file__))
sys.path.insert(0, HERE)

from vlib import build, evidence, findings, runner  # noqa: E402


def run_check(prop, tier, seed):
    mod = importlib.import_module('checks.' + prop.lower())
    t0 = time.time()
    try:
        res = mod.run(tier, seed)
    except build.BuildError as e:
        print('INCONCLUSIVE property=%s build of the working tree failed:\n%s' % (prop, e))
        return 2
    wall = time.time() - t0
    vs = res.get('violations', [])
    unlisted, known = findings.classify(vs)
    cov = res['coverage']
    cov['distinct_violation_keys'] = sorted({v.key for v in vs})
    evidence.write(prop, tier, seed, mod.LEVEL, cov, wall, len({v.key for v in vs}), res.get('assumptions'))
    for v, e in known:
        print('KNOWN-FINDING: property=%s %s [%s]' % (prop, e.get('what', v.what), v.key))
    for v in unlisted:
        path = findings.write_replay(v)
        print('VIOLATION property=%s replay=%s' % (prop, path))
        print('  key : %s' % v.key)
        print('  what: %s' % v.what[:600])
    inc = res.get('inconclusive')
    print('%s tier=%s seed=%d: %d evaluations, %d distinct non-trivial, %d violation key(s) (%d unlisted), %.1fs'
          % (prop, tier, seed, cov.get('evaluations', 0), cov.get('distinct_nontrivial', 0), len({v.key for v in vs}), len(unlisted), wall))
    for k, v in sorted(cov.get('observed', {}).items()):
        print('  observed %-34s %s' % (k, v))
    if unlisted:
        return 1
    if inc:
        print('INCONCLUSIVE property=%s %s' % (prop, inc))
        return 2
    if not evidence.valid_enough(cov):
        print('INCONCLUSIVE property=%s the run observed too little (%s)' % (prop, {k: cov.get(k) for k in ('evaluations', 'distinct_nontrivial')}))
        return 2
    return 0


def main(argv):
    if len(argv) < 2:
        print(__doc__)
        return 2
    cmd = argv[1]
    if cmd == 'setup':
        os.makedirs(runner.WORK, exist_ok=True)
        for fl in ('asan', 'tsan', 'plain'):
            t = time.time()
            try:
                build.ensure(fl)
            except build.BuildError as e:
                print('setup: build of %s failed\n%s' % (fl, e))
                return 2
            print('setup: %s ready (%.1fs)' % (fl, time.time() - t))
        return 0
    if cmd == 'baseline':
        return subprocess.call([os.path.join(HERE, 'tools', 'baseline.sh'), build.repo()])
    if cmd == 'replay':
        payload = json.load(open(argv[2]))
        mod = importlib.import_module('checks.' + payload['property'].lower())
        if hasattr(mod, 'replay'):
            return mod.replay(payload)
        print(json.dumps(payload, indent=1)[:4000])
        print('no replay function for', payload['property'])
        return 2
    prop = cmd.upper()
    tier = os.environ.get('VERIF_TIER', 'quick')
    if '--tier' in argv:
        tier = argv[argv.index('--tier') + 1]
    seed = int(os.environ.get('VERIF_SEED', '1') or '1')
    try:
        return run_check(prop, tier, seed)
    except Exception:
        traceback.print_exc()
        print('INCONCLUSIVE property=%s harness failure' % prop)
        return 2


if __name__ == '__main__':
    sys.exit(main(sys.argv))
