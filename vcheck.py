#!/usr/bin/env python3
"""Entry point of the verification machinery.

  vcheck.py C01 --tier quick|thorough     run one check (VERIF_SEED, VERIF_TIER honoured)
  vcheck.py setup                         build all instrumented flavours of /repo's working tree
  vcheck.py baseline                      repository test suite with the hook guard OFF vs BASELINE.json
  vcheck.py replay <file>                 re-run the case recorded in a replay file
exit 0 = held on everything explored, 1 = violation (VIOLATION line), 2 = inconclusive / harness failure
"""
import importlib
import json
import os
import subprocess
import sys
import time
import traceback

HERE = os.path.dirname(os.path.abspath(__file__))
sys.path.insert(0, HERE)

from vlib import build, evidence, findings, runner  # noqa: E402


def run_check(prop, tier, seed):
    mod = importlib.import_module('checks.' + prop.lower())
    t0 = time.time()
    try:
        res = mod.run(tier, seed)
    except build.BuildError as e:
        print('INCONCLUSIVE property=%s build of the working tree failed:\n%s' % (prop, e))
        return 2
    wall = time.time() - t0
    vs = res.get('violations', [])
    unlisted, known = findings.classify(vs)
    cov = res['coverage']
    cov['distinct_violation_keys'] = sorted({v.key for v in vs})
    evidence.write(prop, tier, seed, mod.LEVEL, cov, wall, len({v.key for v in vs}), res.get('assumptions'))
    for v, e in known:
        print('KNOWN-FINDING: property=%s %s [%s]' % (prop, e.get('what', v.what), v.key))
    for v in unlisted:
        path = findings.write_replay(v)
        print('VIOLATION property=%s replay=%s' % (prop, path))
        print('  key : %s' % v.key)
        print('  what: %s' % v.what[:600])
    inc = res.get('inconclusive')
    print('%s tier=%s seed=%d: %d evaluations, %d distinct non-trivial, %d violation key(s) (%d unlisted), %.1fs'
          % (prop, tier, seed, cov.get('evaluations', 0), cov.get('distinct_nontrivial', 0), len({v.key for v in vs}), len(unlisted), wall))
    for k, v in sorted(cov.get('observed', {}).items()):
        print('  observed %-34s %s' % (k, v))
    if unlisted:
        return 1
    if inc:
        print('INCONCLUSIVE property=%s %s' % (prop, inc))
        return 2
    if not evidence.valid_enough(cov):
        print('INCONCLUSIVE property=%s the run observed too little (%s)' % (prop, {k: cov.get(k) for k in ('evaluations', 'distinct_nontrivial')}))
        return 2
    return 0


def replay(rec):
    """re-execute the case stored in a replay file against the current working tree and re-apply the oracles;
    exit 1 if a violation with the recorded key shows again, 0 if not, 2 if the payload cannot be re-executed"""
    from vlib import model, pipeline
    from vlib.findings import Violation
    prop, key, payload = rec['property'], rec['key'], rec.get('payload') or {}
    print('replaying %s  key=%s' % (prop, key))
    print('recorded: %s' % rec.get('what', '')[:500])
    mod = importlib.import_module('checks.' + prop.lower())
    if hasattr(mod, 'replay'):
        return mod.replay(rec)
    case = payload.get('case')
    vs = []
    if isinstance(case, dict) and 'preamble' in case and 'ops' in case:
        env = None
        results, crashes, wd = pipeline.run_histories([case], 'replay')
        try:
            vs += pipeline.crash_violations(prop, crashes, [case])
            r = results.get(0)
            if r is not None:
                for e in r['log']:
                    print('  ', {k: v for k, v in e.items() if k in ('i', 'op', 'ret', 'exc', 'what', 'items', 'qr', 'aec', 'mm', 'blocks', 'active', 'fill')})
                exp, exp_out, m = model.expected_outputs(case)
                outs = pipeline.collect_outputs(case, r)
                vs += pipeline.log_exceptions(prop, case, r)
                v2, docs = pipeline.judge_wellformed(prop, case, outs, exp_out)
                vs += v2
                files = [(case['id'] + '__' + o.id, o.data) for o in outs if o.data]
                dumps, rcr = pipeline.read_back(files, 'replay', wd)
                dumps = {k.replace('__', '/'): v for k, v in dumps.items()}
                vs += pipeline.judge_roundtrip(prop, case, outs, exp_out, docs, dumps)
                vs += pipeline.judge_bytecounts(prop, case, r, outs)
                vs += pipeline.judge_flush(prop, case, r, exp, exp_out, docs)
                vs += pipeline.judge_hints(prop, case, outs, docs, exp_out)
                vs += pipeline.judge_tables(prop, case, outs, docs)
                vs += pipeline.judge_times(prop, case, outs, docs)
                vs += pipeline.judge_rotation(prop, case, r, outs, exp_out, docs)
        finally:
            runner.cleanup(wd)
    elif isinstance(case, dict) and 'ops' in case and ('segs' in case or 'path' in case or case.get('stream') == 'unopened'):
        results, crashes, wd = runner.run_cases('asan', 'dec', [case], 'replay', pre_args_fn=lambda w: [w])
        runner.cleanup(wd)
        for c in crashes:
            vs.append(Violation(prop, '%s:%s' % (prop, c.key_tail()), c.excerpt[:800]))
        if 0 in results:
            print('  decoder results:', json.dumps(results[0]['res'])[:1500])
            if 'expected' in payload:
                print('  expected       :', json.dumps(payload['expected'])[:1500])
                if results[0]['res'] != payload['expected']:
                    vs.append(Violation(prop, key, 'decoder results differ from the expected ones'))
    elif 'input_hex' in payload and payload['input_hex']:
        job = {'id': 'replay', 'hex': payload['input_hex'], 'stream': 'sstream', 'dump': 'none', 'render': True, 'tables': True}
        results, crashes, wd = runner.run_cases('asan', 'read', [job], 'replay')
        runner.cleanup(wd)
        for c in crashes:
            vs.append(Violation(prop, '%s:%s' % (prop, c.key_tail()), c.excerpt[:800]))
        if 0 in results:
            print('  reader result:', {k: results[0].get(k) for k in ('hdr', 'end', 'nblocks', 'alloc_max', 'hook_ok')})
    else:
        print(json.dumps(payload, indent=1)[:3000])
        print('this replay file documents the violation; re-run the check with the same VERIF_SEED to re-execute it')
        return 2
    same = [v for v in vs if v.key == key]
    for v in vs:
        print('  now: %s | %s' % (v.key, v.what[:300]))
    print('REPRODUCED' if same else ('other violations only' if vs else 'not reproduced on the current tree'))
    return 1 if same else 0


def main(argv):
    if len(argv) < 2:
        print(__doc__)
        return 2
    cmd = argv[1]
    if cmd == 'setup':
        os.makedirs(runner.WORK, exist_ok=True)
        for fl in ('asan', 'tsan', 'plain'):
            t = time.time()
            try:
                build.ensure(fl)
            except build.BuildError as e:
                print('setup: build of %s failed\n%s' % (fl, e))
                return 2
            print('setup: %s ready (%.1fs)' % (fl, time.time() - t))
        return 0
    if cmd == 'baseline':
        return subprocess.call([os.path.join(HERE, 'tools', 'baseline.sh'), build.repo()])
    if cmd == 'replay':
        return replay(json.load(open(argv[2])))
    prop = cmd.upper()
    tier = os.environ.get('VERIF_TIER', 'quick')
    if '--tier' in argv:
        tier = argv[argv.index('--tier') + 1]
    seed = int(os.environ.get('VERIF_SEED', '1') or '1')
    try:
        return run_check(prop, tier, seed)
    except Exception:
        traceback.print_exc()
        print('INCONCLUSIVE property=%s harness failure' % prop)
        return 2


if __name__ == '__main__':
    sys.exit(main(sys.argv))
