// JSON <-> library structure conversions shared by the drivers.
#include "common.h"

namespace cdns_verif {
using namespace CDNS;

GenericResourceRecord j2rr(const json& j) {
    GenericResourceRecord r;
    r.name = unhex(j.at("n").get<std::string>());
    r.classtype.type = j.at("t").get<uint16_t>();
    r.classtype.class_ = j.at("c").get<uint16_t>();
    jopt(j, "ttl", r.ttl);
    jopt_s(j, "rd", r.rdata);
    return r;
}

static void jopt_rrs(const json& j, const char* k, boost::optional<std::vector<GenericResourceRecord>>& o) {
    auto it = j.find(k);
    if (it == j.end() || it->is_null()) return;
    std::vector<GenericResourceRecord> v;
    for (auto& e : *it) v.push_back(j2rr(e));
    o = v;
}

GenericQueryResponse j2qr(const json& j) {
    GenericQueryResponse q;
    if (j.contains("ts")) q.ts = j2ts(j["ts"]);
    jopt_s(j, "cip", q.client_ip);
    jopt(j, "cport", q.client_port);
    jopt(j, "tid", q.transaction_id);
    jopt_s(j, "sip", q.server_ip);
    jopt(j, "sport", q.server_port);
    jopt(j, "tflags", q.qr_transport_flags);
    jopt(j, "qtype", q.qr_type);
    jopt(j, "sigflags", q.qr_sig_flags);
    jopt(j, "opcode", q.query_opcode);
    jopt(j, "dnsflags", q.qr_dns_flags);
    jopt(j, "qrcode", q.query_rcode);
    if (j.contains("qct")) {
        ClassType ct;
        ct.type = j["qct"][0].get<uint16_t>();
        ct.class_ = j["qct"][1].get<uint16_t>();
        q.query_classtype = ct;
    }
    jopt(j, "qd", q.query_qdcount);
    jopt(j, "an", q.query_ancount);
    jopt(j, "ns", q.query_nscount);
    jopt(j, "ar", q.query_arcount);
    jopt(j, "edns", q.query_edns_version);
    jopt(j, "udp", q.query_udp_size);
    jopt_s(j, "optrd", q.query_opt_rdata);
    jopt(j, "rrcode", q.response_rcode);
    jopt(j, "hop", q.client_hoplimit);
    jopt_i(j, "delay", q.response_delay);
    jopt_s(j, "qname", q.query_name);
    jopt(j, "qsize", q.query_size);
    jopt(j, "rsize", q.response_size);
    jopt_s(j, "bail", q.bailiwick);
    jopt(j, "pflags", q.processing_flags);
    jopt_rrs(j, "qq", q.query_questions);
    jopt_rrs(j, "qan", q.query_answers);
    jopt_rrs(j, "qau", q.query_authority);
    jopt_rrs(j, "qad", q.query_additional);
    jopt_rrs(j, "rq", q.response_questions);
    jopt_rrs(j, "ran", q.response_answers);
    jopt_rrs(j, "rau", q.response_authority);
    jopt_rrs(j, "rad", q.response_additional);
    jopt_s(j, "asn", q.asn);
    jopt_s(j, "cc", q.country_code);
    jopt_i(j, "rtt", q.round_trip_time);
    return q;
}

GenericAddressEventCount j2aec(const json& j) {
    GenericAddressEventCount a;
    a.ae_type = static_cast<AddressEventTypeValues>(j.at("t").get<uint64_t>());
    jopt(j, "code", a.ae_code);
    jopt(j, "tf", a.ae_transport_flags);
    a.ip_address = unhex(j.at("ip").get<std::string>());
    // the count member of the generic structure is an output of read_generic_aec(); as an input it is ignored (a structure obtained
    // from the reader and buffered again carries whatever count it was read with)
    if (j.contains("cin")) a.ae_count = j["cin"].get<uint64_t>();
    return a;
}

GenericMalformedMessage j2mm(const json& j) {
    GenericMalformedMessage m;
    if (j.contains("ts")) m.ts = j2ts(j["ts"]);
    jopt_s(j, "cip", m.client_ip);
    jopt(j, "cport", m.client_port);
    jopt_s(j, "sip", m.server_ip);
    jopt(j, "sport", m.server_port);
    jopt(j, "tf", m.mm_transport_flags);
    jopt_s(j, "pl", m.mm_payload);
    return m;
}

boost::optional<BlockStatistics> j2stats(const json& op, const char* key) {
    auto it = op.find(key);
    if (it == op.end() || it->is_null()) return boost::none;
    BlockStatistics s;
    jopt(*it, "pm", s.processed_messages);
    jopt(*it, "qr", s.qr_data_items);
    jopt(*it, "uq", s.unmatched_queries);
    jopt(*it, "ur", s.unmatched_responses);
    jopt(*it, "do", s.discarded_opcode);
    jopt(*it, "mi", s.malformed_items);
    return s;
}

BlockParameters j2bp(const json& j) {
    BlockParameters bp;
    auto& sp = bp.storage_parameters;
    sp.ticks_per_second = j.at("tps").get<uint64_t>();
    sp.max_block_items = j.at("max").get<uint64_t>();
    sp.storage_hints.query_response_hints = j.at("qrh").get<uint32_t>();
    sp.storage_hints.query_response_signature_hints = j.at("sigh").get<uint32_t>();
    sp.storage_hints.rr_hints = j.at("rrh").get<uint8_t>();
    sp.storage_hints.other_data_hints = j.at("oth").get<uint8_t>();
    if (j.contains("opcodes")) {
        sp.opcodes.clear();
        for (auto& e : j["opcodes"]) sp.opcodes.push_back(static_cast<OpCodes>(e.get<uint64_t>()));
    }
    if (j.contains("rrtypes")) {
        sp.rr_types.clear();
        for (auto& e : j["rrtypes"]) sp.rr_types.push_back(static_cast<RrTypes>(e.get<uint64_t>()));
    }
    jopt(j, "sflags", sp.storage_flags);
    jopt(j, "cp4", sp.client_address_prefix_ipv4);
    jopt(j, "cp6", sp.client_address_prefix_ipv6);
    jopt(j, "sp4", sp.server_address_prefix_ipv4);
    jopt(j, "sp6", sp.server_address_prefix_ipv6);
    jopt_s(j, "samp", sp.sampling_method);
    jopt_s(j, "anon", sp.anonymization_method);
    auto it = j.find("cp");
    if (it != j.end() && !it->is_null()) {
        CollectionParameters cp;
        jopt(*it, "qto", cp.query_timeout);
        jopt(*it, "sto", cp.skew_timeout);
        jopt(*it, "snap", cp.snaplen);
        if (it->contains("promisc")) cp.promisc = (*it)["promisc"].get<bool>();
        if (it->contains("ifs")) for (auto& e : (*it)["ifs"]) cp.interfaces.push_back(unhex(e.get<std::string>()));
        if (it->contains("saddr")) for (auto& e : (*it)["saddr"]) cp.server_address.push_back(unhex(e.get<std::string>()));
        if (it->contains("vlan")) for (auto& e : (*it)["vlan"]) cp.vlan_ids.push_back(e.get<uint16_t>());
        jopt_s(*it, "filter", cp.filter);
        jopt_s(*it, "gen", cp.generator_id);
        jopt_s(*it, "host", cp.host_id);
        bp.collection_parameters = cp;
    }
    return bp;
}

FilePreamble j2preamble(const json& j) {
    std::vector<BlockParameters> bps;
    for (auto& e : j.at("bps")) bps.push_back(j2bp(e));
    FilePreamble fp(bps);
    fp.m_major_format_version = j.at("major").get<uint8_t>();
    fp.m_minor_format_version = j.at("minor").get<uint8_t>();
    if (j.contains("private") && !j["private"].is_null())
        fp.m_private_version = j["private"].get<uint8_t>();
    else
        fp.m_private_version = boost::none;
    return fp;
}

// ------------------------------------------------------------------------------------------------

template<typename T> void put(json& j, const char* k, const boost::optional<T>& o) {
    if (o) j[k] = static_cast<uint64_t>(*o);
}
static void put_i(json& j, const char* k, const boost::optional<int64_t>& o) { if (o) j[k] = *o; }
static void put_s(json& j, const char* k, const boost::optional<std::string>& o) { if (o) j[k] = hex(*o); }

json rr2j(const GenericResourceRecord& r) {
    json j = json::object();
    j["n"] = hex(r.name);
    j["t"] = r.classtype.type;
    j["c"] = r.classtype.class_;
    put(j, "ttl", r.ttl);
    put_s(j, "rd", r.rdata);
    return j;
}
static void put_rrs(json& j, const char* k, const boost::optional<std::vector<GenericResourceRecord>>& o) {
    if (!o) return;
    json a = json::array();
    for (auto& r : *o) a.push_back(rr2j(r));
    j[k] = a;
}

json qr2j(const GenericQueryResponse& q) {
    json j = json::object();
    if (q.ts) j["ts"] = {q.ts->m_secs, q.ts->m_ticks};
    put_s(j, "cip", q.client_ip);
    put(j, "cport", q.client_port);
    put(j, "tid", q.transaction_id);
    put_s(j, "sip", q.server_ip);
    put(j, "sport", q.server_port);
    put(j, "tflags", q.qr_transport_flags);
    put(j, "qtype", q.qr_type);
    put(j, "sigflags", q.qr_sig_flags);
    put(j, "opcode", q.query_opcode);
    put(j, "dnsflags", q.qr_dns_flags);
    put(j, "qrcode", q.query_rcode);
    if (q.query_classtype) j["qct"] = {q.query_classtype->type, q.query_classtype->class_};
    put(j, "qd", q.query_qdcount);
    put(j, "an", q.query_ancount);
    put(j, "ns", q.query_nscount);
    put(j, "ar", q.query_arcount);
    put(j, "edns", q.query_edns_version);
    put(j, "udp", q.query_udp_size);
    put_s(j, "optrd", q.query_opt_rdata);
    put(j, "rrcode", q.response_rcode);
    put(j, "hop", q.client_hoplimit);
    put_i(j, "delay", q.response_delay);
    put_s(j, "qname", q.query_name);
    put(j, "qsize", q.query_size);
    put(j, "rsize", q.response_size);
    put_s(j, "bail", q.bailiwick);
    put(j, "pflags", q.processing_flags);
    put_rrs(j, "qq", q.query_questions);
    put_rrs(j, "qan", q.query_answers);
    put_rrs(j, "qau", q.query_authority);
    put_rrs(j, "qad", q.query_additional);
    put_rrs(j, "rq", q.response_questions);
    put_rrs(j, "ran", q.response_answers);
    put_rrs(j, "rau", q.response_authority);
    put_rrs(j, "rad", q.response_additional);
    put_s(j, "asn", q.asn);
    put_s(j, "cc", q.country_code);
    put_i(j, "rtt", q.round_trip_time);
    return j;
}

json aec2j(const GenericAddressEventCount& a) {
    json j = json::object();
    j["t"] = static_cast<uint64_t>(a.ae_type);
    put(j, "code", a.ae_code);
    put(j, "tf", a.ae_transport_flags);
    j["ip"] = hex(a.ip_address);
    j["cnt"] = a.ae_count;
    return j;
}

json mm2j(const GenericMalformedMessage& m) {
    json j = json::object();
    if (m.ts) j["ts"] = {m.ts->m_secs, m.ts->m_ticks};
    put_s(j, "cip", m.client_ip);
    put(j, "cport", m.client_port);
    put_s(j, "sip", m.server_ip);
    put(j, "sport", m.server_port);
    put(j, "tf", m.mm_transport_flags);
    put_s(j, "pl", m.mm_payload);
    return j;
}

json stats2j(const BlockStatistics& s) {
    json j = json::object();
    put(j, "pm", s.processed_messages);
    put(j, "qr", s.qr_data_items);
    put(j, "uq", s.unmatched_queries);
    put(j, "ur", s.unmatched_responses);
    put(j, "do", s.discarded_opcode);
    put(j, "mi", s.malformed_items);
    return j;
}

json bp2j(const BlockParameters& bp) {
    json j = json::object();
    auto& sp = bp.storage_parameters;
    j["tps"] = sp.ticks_per_second;
    j["max"] = sp.max_block_items;
    j["qrh"] = sp.storage_hints.query_response_hints;
    j["sigh"] = sp.storage_hints.query_response_signature_hints;
    j["rrh"] = sp.storage_hints.rr_hints;
    j["oth"] = sp.storage_hints.other_data_hints;
    json oc = json::array(), rt = json::array();
    for (auto o : sp.opcodes) oc.push_back(static_cast<uint64_t>(o));
    for (auto r : sp.rr_types) rt.push_back(static_cast<uint64_t>(r));
    j["opcodes"] = oc;
    j["rrtypes"] = rt;
    put(j, "sflags", sp.storage_flags);
    put(j, "cp4", sp.client_address_prefix_ipv4);
    put(j, "cp6", sp.client_address_prefix_ipv6);
    put(j, "sp4", sp.server_address_prefix_ipv4);
    put(j, "sp6", sp.server_address_prefix_ipv6);
    put_s(j, "samp", sp.sampling_method);
    put_s(j, "anon", sp.anonymization_method);
    if (bp.collection_parameters) {
        auto& cp = *bp.collection_parameters;
        json c = json::object();
        put(c, "qto", cp.query_timeout);
        put(c, "sto", cp.skew_timeout);
        put(c, "snap", cp.snaplen);
        if (cp.promisc) c["promisc"] = *cp.promisc;
        if (!cp.interfaces.empty()) { json a = json::array(); for (auto& s : cp.interfaces) a.push_back(hex(s)); c["ifs"] = a; }
        if (!cp.server_address.empty()) { json a = json::array(); for (auto& s : cp.server_address) a.push_back(hex(s)); c["saddr"] = a; }
        if (!cp.vlan_ids.empty()) { json a = json::array(); for (auto v : cp.vlan_ids) a.push_back(v); c["vlan"] = a; }
        put_s(c, "filter", cp.filter);
        put_s(c, "gen", cp.generator_id);
        put_s(c, "host", cp.host_id);
        j["cp"] = c;
    }
    return j;
}

json preamble2j(const FilePreamble& fp) {
    json j = json::object();
    j["major"] = fp.m_major_format_version;
    j["minor"] = fp.m_minor_format_version;
    if (fp.m_private_version) j["private"] = *fp.m_private_version; else j["private"] = nullptr;
    json a = json::array();
    for (auto& bp : fp.m_block_parameters) a.push_back(bp2j(bp));
    j["bps"] = a;
    return j;
}

static json sig2j(const QueryResponseSignature& s) {
    json j = json::object();
    put(j, "sai", s.server_address_index); put(j, "sport", s.server_port); put(j, "tflags", s.qr_transport_flags);
    put(j, "qtype", s.qr_type); put(j, "sigflags", s.qr_sig_flags); put(j, "opcode", s.query_opcode);
    put(j, "dnsflags", s.qr_dns_flags); put(j, "qrcode", s.query_rcode); put(j, "qcti", s.query_classtype_index);
    put(j, "qd", s.query_qdcount); put(j, "an", s.query_ancount); put(j, "ns", s.query_nscount);
    put(j, "ar", s.query_arcount); put(j, "edns", s.query_edns_version); put(j, "udp", s.query_udp_size);
    put(j, "optrdi", s.query_opt_rdata_index); put(j, "rrcode", s.response_rcode);
    return j;
}
static json mmd2j(const MalformedMessageData& m) {
    json j = json::object();
    put(j, "sai", m.server_address_index); put(j, "sport", m.server_port); put(j, "tf", m.mm_transport_flags);
    put_s(j, "pl", m.mm_payload);
    return j;
}

json tables2j(CdnsBlock& b) {
    json t = json::object();
    json a = json::array();
    for (auto& s : b.m_ip_address) a.push_back(hex(s.data));
    t["ip"] = a; a = json::array();
    for (auto& c : b.m_classtype) a.push_back({c.type, c.class_});
    t["ct"] = a; a = json::array();
    for (auto& s : b.m_name_rdata) a.push_back(hex(s.data));
    t["nr"] = a; a = json::array();
    for (auto& s : b.m_qr_sig) a.push_back(sig2j(s));
    t["sig"] = a; a = json::array();
    for (auto& l : b.m_qlist) a.push_back(l.list);
    t["qlist"] = a; a = json::array();
    for (auto& q : b.m_qrr) a.push_back({q.name_index, q.classtype_index});
    t["qrr"] = a; a = json::array();
    for (auto& l : b.m_rrlist) a.push_back(l.list);
    t["rrlist"] = a; a = json::array();
    for (auto& r : b.m_rr) {
        json j = json::object();
        j["n"] = r.name_index; j["c"] = r.classtype_index; put(j, "ttl", r.ttl); put(j, "rdi", r.rdata_index);
        a.push_back(j);
    }
    t["rr"] = a; a = json::array();
    for (auto& m : b.m_malformed_message_data) a.push_back(mmd2j(m));
    t["mmd"] = a;
    return t;
}

json block2j(CdnsBlockRead& b, bool tables, bool render, uint64_t& render_bytes) {
    json j = json::object();
    if (b.m_block_preamble.block_parameters_index) j["bpi"] = *b.m_block_preamble.block_parameters_index;
    else j["bpi"] = nullptr;
    j["earliest"] = {b.m_block_preamble.earliest_time.m_secs, b.m_block_preamble.earliest_time.m_ticks};
    if (b.m_block_statistics) j["stats"] = stats2j(*b.m_block_statistics); else j["stats"] = nullptr;
    j["tps"] = Access::blk_params(b).storage_parameters.ticks_per_second;
    j["counts"] = {b.get_qr_count(), b.get_aec_count(), b.get_mm_count(), b.get_item_count()};
    if (tables) j["tables"] = tables2j(b);
    if (render) {
        racc(render_bytes, b.string());
        racc(render_bytes, b.m_block_preamble.string());
        if (b.m_block_statistics) racc(render_bytes, b.m_block_statistics->string());
        for (auto& c : b.m_classtype) racc(render_bytes, ClassType(c).string());
        for (auto& s : b.m_qr_sig) racc(render_bytes, QueryResponseSignature(s).string());
        for (auto& q : b.m_qrr) racc(render_bytes, Question(q).string());
        for (auto& r : b.m_rr) racc(render_bytes, RR(r).string());
        for (auto& m : b.m_malformed_message_data) racc(render_bytes, MalformedMessageData(m).string());
        for (auto& q : b.m_query_responses) racc(render_bytes, q.string());
        for (auto& m : b.m_malformed_messages) racc(render_bytes, m.string());
        for (auto& a : b.m_address_event_counts) { AddressEventCount t = a.first; racc(render_bytes, t.string()); }
    }
    bool end = false;
    json qa = json::array(), aa = json::array(), ma = json::array();
    while (true) {
        GenericQueryResponse q = b.read_generic_qr(end);
        if (end) break;
        if (render) racc(render_bytes, q.string());
        qa.push_back(qr2j(q));
    }
    while (true) {
        GenericAddressEventCount a = b.read_generic_aec(end);
        if (end) break;
        if (render) racc(render_bytes, a.string());
        aa.push_back(aec2j(a));
    }
    while (true) {
        GenericMalformedMessage m = b.read_generic_mm(end);
        if (end) break;
        if (render) racc(render_bytes, m.string());
        ma.push_back(mm2j(m));
    }
    j["qr"] = qa; j["aec"] = aa; j["mm"] = ma;
    return j;
}

}  // namespace cdns_verif
