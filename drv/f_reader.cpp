// libFuzzer harness (flavour "fuzz"): CdnsReader + every accessor and text renderer over arbitrary bytes.
// Only std::exception-derived failures are acceptable; anything else (sanitizer report, other throw, signal) is a finding.
#include <sstream>
#include <string>
#include "cdns.h"

using namespace CDNS;

static volatile size_t sink;

static void decoder_ops(const uint8_t* data, size_t size) {
    // raw decoder: the first byte selects the operation order
    if (size < 2) return;
    std::istringstream is(std::string(reinterpret_cast<const char*>(data + 1), size - 1));
    CdnsDecoder d(is);
    unsigned sel = data[0];
    try {
        for (int i = 0; i < 64; i++) {
            switch ((sel + i * 7) % 12) {
                case 0: sink += static_cast<size_t>(d.peek_type()); break;
                case 1: sink += d.read_unsigned(); break;
                case 2: sink += d.read_negative(); break;
                case 3: sink += d.read_integer(); break;
                case 4: sink += d.read_bool(); break;
                case 5: sink += d.read_bytestring().size(); break;
                case 6: sink += d.read_textstring().size(); break;
                case 7: { bool in; sink += d.read_array_start(in); break; }
                case 8: { bool in; sink += d.read_map_start(in); break; }
                case 9: d.read_break(); break;
                case 10: d.skip_item(); break;
                case 11: d.read_array([](CdnsDecoder& dd) { sink += dd.read_unsigned(); }); break;
            }
        }
    }
    catch (std::exception&) {}
}

extern "C" int LLVMFuzzerTestOneInput(const uint8_t* data, size_t size) {
    if (size > 0 && (data[0] & 0x80) && data[0] != 0x83 && data[0] != 0x9f) {
        decoder_ops(data, size);
        return 0;
    }
    std::istringstream is(std::string(reinterpret_cast<const char*>(data), size));
    try {
        CdnsReader reader(is);
        sink += reader.m_file_preamble.string().size();
        while (true) {
            bool eof = false;
            CdnsBlockRead b = reader.read_block(eof);
            if (eof) break;
            sink += b.string().size();
            for (auto& s : b.m_qr_sig) sink += QueryResponseSignature(s).string().size();
            for (auto& s : b.m_rr) sink += RR(s).string().size();
            for (auto& s : b.m_qrr) sink += Question(s).string().size();
            for (auto& s : b.m_classtype) sink += ClassType(s).string().size();
            for (auto& s : b.m_malformed_message_data) sink += MalformedMessageData(s).string().size();
            for (auto& q : b.m_query_responses) sink += q.string().size();
            for (auto& m : b.m_malformed_messages) sink += m.string().size();
            bool end = false;
            while (true) { auto q = b.read_generic_qr(end); if (end) break; sink += q.string().size(); }
            while (true) { auto a = b.read_generic_aec(end); if (end) break; sink += a.string().size(); }
            while (true) { auto m = b.read_generic_mm(end); if (end) break; sink += m.string().size(); }
            // a block read from untrusted bytes is also copied around by the tools
            CdnsBlockRead c(b);
            sink += c.get_item_count();
        }
    }
    catch (std::exception&) {}
    return 0;
}
