// Shared helpers of the verification drivers: JSON <-> library structures, hex, hook access.
// The drivers never judge anything; they execute cases against the real public API and log what happened.
#pragma once

#include <cstdint>
#include <cstdio>
#include <cstring>
#include <fstream>
#include <iostream>
#include <sstream>
#include <string>
#include <typeinfo>
#include <vector>
#include <fcntl.h>
#include <unistd.h>
#include <sys/stat.h>
#include <sys/resource.h>

#include <functional>
#include <memory>
#include <nlohmann/json.hpp>

#include "cdns.h"

using json = nlohmann::json;

namespace cdns_verif {

// Friend of the library classes when built with -DCDNS_VERIF: read-only observation of private state.
struct Access {
    static std::size_t enc_avail(const CDNS::CdnsEncoder& e) { return e.m_avail; }
    static std::size_t enc_fill(const CDNS::CdnsEncoder& e) { return CDNS::CdnsEncoder::BUFFER_SIZE - e.m_avail; }
    static bool enc_consistent(const CDNS::CdnsEncoder& e) {
        return e.m_p >= e.m_buffer && e.m_p <= e.m_buffer + CDNS::CdnsEncoder::BUFFER_SIZE &&
               static_cast<std::size_t>(e.m_p - e.m_buffer) + e.m_avail == CDNS::CdnsEncoder::BUFFER_SIZE;
    }
    static CDNS::CdnsEncoder& exp_encoder(CDNS::CdnsExporter& x) { return x.m_encoder; }
    static CDNS::CdnsBlock& exp_block(CDNS::CdnsExporter& x) { return x.m_block; }
    static CDNS::FilePreamble& exp_preamble(CDNS::CdnsExporter& x) { return x.m_file_preamble; }
    static CDNS::CdnsDecoder& rdr_decoder(CDNS::CdnsReader& r) { return r.m_decoder; }
    // decoder window: 0 <= pos <= end <= BUFFER_SIZE
    static bool dec_consistent(const CDNS::CdnsDecoder& d) {
        return d.m_p >= d.m_buffer && d.m_p <= d.m_end && d.m_end <= d.m_buffer + CDNS::CdnsDecoder::BUFFER_SIZE;
    }
    static long dec_pos(const CDNS::CdnsDecoder& d) { return d.m_p - d.m_buffer; }
    static long dec_end(const CDNS::CdnsDecoder& d) { return d.m_end - d.m_buffer; }
    static const CDNS::BlockParameters& blk_params(const CDNS::CdnsBlock& b) { return b.m_block_parameters; }

    // Structural invariant of a block table: the index has one entry per distinct key, every key reference
    // points at an element of this table's own storage, and index[key(items[i])] is an i' with items[i'] == items[i].
    // returns "" when fine, otherwise a description
    // address of the object a KeyRef-like key refers to; nullptr when the index map is keyed by something else (restructured table)
    template<typename KV> static auto key_target(const KV& kv, int) -> decltype(static_cast<const void*>(&kv.first.key_)) { return static_cast<const void*>(&kv.first.key_); }
    template<typename KV> static const void* key_target(const KV&, long) { return nullptr; }
    template<typename Item, typename KV> static auto key_equal(const Item& it, const KV& kv, int) -> decltype(it.key() == kv.first.key_) { return it.key() == kv.first.key_; }
    template<typename Item, typename KV> static bool key_equal(const Item&, const KV&, long) { return true; }

    // the walk below needs a map-like index (key -> position) next to a sequence of items; a table restructured in another way
    // has no structural hook (its behaviour is still checked from outside: add/get/dedup against the model)
    template<typename T, typename K>
    static std::string table_invariant(const CDNS::BlockTable<T, K>& t, bool expect_unique) { return table_invariant_impl(t, expect_unique, 0); }
    template<typename TT> static std::string table_invariant_impl(const TT&, bool, long) { return ""; }
    template<typename TT>
    static auto table_invariant_impl(const TT& t, bool expect_unique, int) -> decltype(t.indexes_.begin()->second, t.items_.size(), std::string()) {
        std::vector<const void*> addrs;
        addrs.reserve(t.items_.size());
        for (auto& it : t.items_)
            addrs.push_back(static_cast<const void*>(&it.key()));
        for (auto& kv : t.indexes_) {
            const void* kp = key_target(kv, 0);
            if (kp != nullptr) {
                bool own = false;
                for (auto a : addrs)
                    if (a == kp) { own = true; break; }
                if (!own)
                    return "index key reference points outside this table's storage";
            }
            if (kv.second >= t.items_.size())
                return "index value out of range";
            // (do not dereference foreign keys: comparison only after ownership is established)
            if (!key_equal(t.items_[kv.second], kv, 0))
                return "index maps key to an item with a different value";
        }
        if (expect_unique && t.indexes_.size() != t.items_.size())
            return "indexes_.size() != items_.size()";
        if (t.indexes_.size() > t.items_.size())
            return "more index entries than items";
        return "";
    }
};

inline std::string hex(const std::string& s) {
    static const char* d = "0123456789abcdef";
    std::string r;
    r.reserve(s.size() * 2);
    for (unsigned char c : s) { r.push_back(d[c >> 4]); r.push_back(d[c & 15]); }
    return r;
}
inline int hv(char c) { return c <= '9' ? c - '0' : (c | 32) - 'a' + 10; }
inline std::string unhex(const std::string& h) {
    std::string r;
    r.reserve(h.size() / 2);
    for (size_t i = 0; i + 1 < h.size(); i += 2) r.push_back(static_cast<char>(hv(h[i]) * 16 + hv(h[i + 1])));
    return r;
}

inline std::string exc_name(const std::exception& e) {
    // by class hierarchy first: a library may introduce more specific classes derived from the documented ones
    if (dynamic_cast<const CDNS::CdnsDecoderEnd*>(&e)) return "CdnsDecoderEnd";
    if (dynamic_cast<const CDNS::CdnsDecoderException*>(&e)) return "CdnsDecoderException";
    if (dynamic_cast<const CDNS::CborOutputException*>(&e)) return "CborOutputException";
    if (dynamic_cast<const CDNS::CdnsEncoderException*>(&e)) return "CdnsEncoderException";
    if (dynamic_cast<const std::length_error*>(&e)) return "std::length_error";
    if (dynamic_cast<const std::ios_base::failure*>(&e)) return "std::ios_base::failure";
    if (dynamic_cast<const std::runtime_error*>(&e)) return "std::runtime_error";
    if (dynamic_cast<const std::bad_alloc*>(&e)) return "std::bad_alloc";
    std::string n = typeid(e).name();
    if (n.find("CdnsDecoderEnd") != std::string::npos) return "CdnsDecoderEnd";
    if (n.find("CdnsDecoderException") != std::string::npos) return "CdnsDecoderException";
    if (n.find("CborOutputException") != std::string::npos) return "CborOutputException";
    if (n.find("CdnsEncoderException") != std::string::npos) return "CdnsEncoderException";
    if (n.find("runtime_error") != std::string::npos) return "std::runtime_error";
    if (n.find("bad_alloc") != std::string::npos) return "std::bad_alloc";
    if (n.find("length_error") != std::string::npos) return "std::length_error";
    if (n.find("failure") != std::string::npos) return "std::ios_base::failure";
    if (n.find("bad_optional_access") != std::string::npos) return "boost::bad_optional_access";
    return n;
}

inline uint64_t fnv64(const std::string& s) {
    uint64_t h = 1469598103934665603ULL;
    for (unsigned char c : s) { h ^= c; h *= 1099511628211ULL; }
    return h;
}
// accumulate rendered text into a content-sensitive digest (length and bytes), so that two runs can be compared
inline void racc(uint64_t& h, const std::string& s) {
    h = (h ^ fnv64(s)) * 1099511628211ULL + s.size();
}
inline bool slurp(const std::string& path, std::string& out) {
    std::ifstream f(path, std::ios::binary);
    if (!f) return false;
    std::stringstream ss;
    ss << f.rdbuf();
    out = ss.str();
    return true;
}
inline double cpu_seconds() {
    struct rusage ru;
    getrusage(RUSAGE_SELF, &ru);
    return ru.ru_utime.tv_sec + ru.ru_utime.tv_usec / 1e6 + ru.ru_stime.tv_sec + ru.ru_stime.tv_usec / 1e6;
}

// ---------- JSON -> library structures (cases) ----------
template<typename T> void jopt(const json& j, const char* k, boost::optional<T>& o) {
    auto it = j.find(k);
    if (it != j.end() && !it->is_null()) o = static_cast<T>(it->get<uint64_t>());
}
inline void jopt_i(const json& j, const char* k, boost::optional<int64_t>& o) {
    auto it = j.find(k);
    if (it != j.end() && !it->is_null()) o = it->get<int64_t>();
}
inline void jopt_s(const json& j, const char* k, boost::optional<std::string>& o) {
    auto it = j.find(k);
    if (it != j.end() && !it->is_null()) o = unhex(it->get<std::string>());
}
inline CDNS::Timestamp j2ts(const json& j) { return CDNS::Timestamp(j[0].get<uint64_t>(), j[1].get<uint64_t>()); }

CDNS::GenericResourceRecord j2rr(const json& j);
CDNS::GenericQueryResponse j2qr(const json& j);
CDNS::GenericAddressEventCount j2aec(const json& j);
CDNS::GenericMalformedMessage j2mm(const json& j);
boost::optional<CDNS::BlockStatistics> j2stats(const json& op, const char* key = "st");
CDNS::BlockParameters j2bp(const json& j);
CDNS::FilePreamble j2preamble(const json& j);

// ---------- library structures -> JSON (dumps) ----------
json rr2j(const CDNS::GenericResourceRecord& r);
json qr2j(const CDNS::GenericQueryResponse& r);
json aec2j(const CDNS::GenericAddressEventCount& r);
json mm2j(const CDNS::GenericMalformedMessage& r);
json stats2j(const CDNS::BlockStatistics& s);
json bp2j(const CDNS::BlockParameters& bp);
json preamble2j(const CDNS::FilePreamble& fp);
json block2j(CDNS::CdnsBlockRead& b, bool tables, bool render, uint64_t& render_bytes);
json tables2j(CDNS::CdnsBlock& b);

// sub-commands
int cmd_export(int argc, char** argv);
int cmd_read(int argc, char** argv);
int cmd_enc(int argc, char** argv);
int cmd_dec(int argc, char** argv);
int cmd_ts(int argc, char** argv);
int cmd_table(int argc, char** argv);
int cmd_writer(int argc, char** argv);
int cmd_mt(int argc, char** argv);

// one export case / one read job, re-entrant (used by cmd_export, cmd_read and cmd_mt)
void run_export_case(const json& c, const std::string& workdir, std::vector<json>& log);
json run_read_job(const json& job);

// allocation monitor (d_main.cpp): largest single operator new request since reset
void alloc_reset();
uint64_t alloc_max();

// sys-call interposition plan (d_sys.cpp)
void sys_configure(const json& plan, const std::string& logpath);
void sys_reset();
json sys_summary();

}  // namespace cdns_verif
