// "table" driver: histories over block tables and block copies (C11, C19).
#include "common.h"

namespace cdns_verif {
using namespace CDNS;

namespace {

struct Slot {
    CdnsBlock* blk = nullptr;
    CdnsBlockRead* rd = nullptr;  // non-null when the slot holds a CdnsBlockRead (blk points to the same object)
    void reset() {
        if (rd) delete rd; else delete blk;
        blk = nullptr; rd = nullptr;
    }
};

QueryResponseSignature j2sig(const json& j) {
    QueryResponseSignature s;
    jopt(j, "sai", s.server_address_index); jopt(j, "sport", s.server_port); jopt(j, "tflags", s.qr_transport_flags);
    jopt(j, "qtype", s.qr_type); jopt(j, "sigflags", s.qr_sig_flags); jopt(j, "opcode", s.query_opcode);
    jopt(j, "dnsflags", s.qr_dns_flags); jopt(j, "qrcode", s.query_rcode); jopt(j, "qcti", s.query_classtype_index);
    jopt(j, "qd", s.query_qdcount); jopt(j, "an", s.query_ancount); jopt(j, "ns", s.query_nscount);
    jopt(j, "ar", s.query_arcount); jopt(j, "edns", s.query_edns_version); jopt(j, "udp", s.query_udp_size);
    jopt(j, "optrdi", s.query_opt_rdata_index); jopt(j, "rrcode", s.response_rcode);
    return s;
}
MalformedMessageData j2mmd(const json& j) {
    MalformedMessageData m;
    jopt(j, "sai", m.server_address_index); jopt(j, "sport", m.server_port); jopt(j, "tf", m.mm_transport_flags);
    jopt_s(j, "pl", m.mm_payload);
    return m;
}

std::string invariants(CdnsBlock& b, bool unique) {
    std::string r;
    auto chk = [&](const char* n, const std::string& s) { if (!s.empty()) r += std::string(n) + ": " + s + "; "; };
    chk("ip", Access::table_invariant(b.m_ip_address, unique));
    chk("ct", Access::table_invariant(b.m_classtype, unique));
    chk("nr", Access::table_invariant(b.m_name_rdata, unique));
    chk("sig", Access::table_invariant(b.m_qr_sig, unique));
    chk("qlist", Access::table_invariant(b.m_qlist, unique));
    chk("qrr", Access::table_invariant(b.m_qrr, unique));
    chk("rrlist", Access::table_invariant(b.m_rrlist, unique));
    chk("rr", Access::table_invariant(b.m_rr, unique));
    chk("mmd", Access::table_invariant(b.m_malformed_message_data, unique));
    return r;
}

std::string serialise(CdnsBlock& b, const std::string& workdir) {
    std::string path = workdir + "/ser_" + std::to_string(getpid());
    std::size_t ret;
    {
        CdnsEncoder enc(path, CborOutputCompression::NO_COMPRESSION);
        ret = b.write(enc);
    }
    std::string data;
    slurp(path, data);
    ::unlink(path.c_str());
    if (ret != data.size()) data += "|RET=" + std::to_string(ret);
    return data;
}

}  // namespace

int cmd_table(int argc, char** argv) {
    // vdrv table <cases> <workdir> <results> [start]
    if (argc < 5) { fprintf(stderr, "usage: vdrv table cases workdir results [start]\n"); return 2; }
    std::ifstream in(argv[2]);
    std::string workdir = argv[3];
    FILE* out = fopen(argv[4], "a");
    long start = argc > 5 ? atol(argv[5]) : 0;
    if (!in || !out) return 2;
    std::string line;
    long n = 0;
    while (std::getline(in, line)) {
        if (n++ < start || line.empty()) continue;
        printf("BEGIN %ld\n", n - 1);
        fflush(stdout);
        json c = json::parse(line);
        std::vector<Slot> slots(8);
        json res = json::array();
        for (auto& op : c.at("ops")) {
            json v;
            std::string o = op.at("o").get<std::string>();
            int bi = op.value("b", 0);
            try {
                if (o == "new") {
                    slots[bi].reset();
                    BlockParameters bp = op.contains("bp") ? j2bp(op["bp"]) : BlockParameters();
                    if (op.value("read", false)) { slots[bi].rd = new CdnsBlockRead(); slots[bi].blk = slots[bi].rd; slots[bi].blk->set_block_parameters(bp, 0); }
                    else slots[bi].blk = new CdnsBlock(bp, op.value("bpi", 0));
                    v = "ok";
                }
                else if (o == "fromfile") {
                    // reader return (+ assignment): how = "ctor" (construct from the returned temporary) | "assign"
                    std::ifstream ifs(op.at("path").get<std::string>(), std::ios::binary);
                    CdnsReader rd(ifs);
                    bool eof = false;
                    int k = op.value("n", 0);
                    for (int i = 0; i < k && !eof; i++) rd.read_block(eof);
                    if (op.value("how", std::string("ctor")) == "assign") {
                        if (!slots[bi].rd) { slots[bi].reset(); slots[bi].rd = new CdnsBlockRead(); slots[bi].blk = slots[bi].rd; }
                        *slots[bi].rd = rd.read_block(eof);
                    }
                    else {
                        slots[bi].reset();
                        slots[bi].rd = new CdnsBlockRead(rd.read_block(eof));
                        slots[bi].blk = slots[bi].rd;
                    }
                    v = eof ? "eof" : "ok";
                }
                else if (o == "copy") {
                    std::string how = op.at("how").get<std::string>();
                    int s = op.at("src").get<int>(), d = op.at("dst").get<int>();
                    Slot& S = slots[s];
                    Slot& D = slots[d];
                    if (!S.blk) v = "nosrc";
                    else if (S.rd) {
                        if (how == "cctor") { D.reset(); D.rd = new CdnsBlockRead(*S.rd); D.blk = D.rd; }
                        else if (how == "mctor") { D.reset(); D.rd = new CdnsBlockRead(std::move(*S.rd)); D.blk = D.rd; }
                        else {
                            if (!D.rd) { D.reset(); D.rd = new CdnsBlockRead(); D.blk = D.rd; }
                            if (how == "cassign") *D.rd = *S.rd; else *D.rd = std::move(*S.rd);
                        }
                        v = "ok";
                    }
                    else {
                        if (how == "cctor") { D.reset(); D.blk = new CdnsBlock(*S.blk); }
                        else if (how == "mctor") { D.reset(); D.blk = new CdnsBlock(std::move(*S.blk)); }
                        else {
                            if (!D.blk || D.rd) { D.reset(); D.blk = new CdnsBlock(); }
                            if (how == "cassign") *D.blk = *S.blk; else *D.blk = std::move(*S.blk);
                        }
                        v = "ok";
                    }
                }
                else if (o == "destroy") { slots[bi].reset(); v = "ok"; }
                else if (!slots[bi].blk) v = "noblock";
                else if (o == "clear") { slots[bi].blk->clear(); v = "ok"; }
                else if (o == "add") {
                    CdnsBlock& b = *slots[bi].blk;
                    std::string t = op.at("t").get<std::string>();
                    const json& val = op.at("v");
                    if (t == "ip") v = b.add_ip_address(unhex(val.get<std::string>()));
                    else if (t == "nr") v = b.add_name_rdata(unhex(val.get<std::string>()));
                    else if (t == "ct") { ClassType x; x.type = val[0].get<uint16_t>(); x.class_ = val[1].get<uint16_t>(); v = b.add_classtype(x); }
                    else if (t == "sig") v = b.add_qr_signature(j2sig(val));
                    else if (t == "qlist") v = b.add_question_list(val.get<std::vector<index_t>>());
                    else if (t == "rrlist") v = b.add_rr_list(val.get<std::vector<index_t>>());
                    else if (t == "q") { Question x; x.name_index = val[0].get<index_t>(); x.classtype_index = val[1].get<index_t>(); v = b.add_question(x); }
                    else if (t == "rr") { RR x; x.name_index = val.at("n").get<index_t>(); x.classtype_index = val.at("c").get<index_t>(); jopt(val, "ttl", x.ttl); jopt(val, "rdi", x.rdata_index); v = b.add_rr(x); }
                    else if (t == "mmd") v = b.add_malformed_message_data(j2mmd(val));
                    else v = "BADTABLE";
                }
                else if (o == "get") {
                    CdnsBlock& b = *slots[bi].blk;
                    std::string t = op.at("t").get<std::string>();
                    index_t i = op.at("i").get<index_t>();
                    json tb = json::object();
                    if (t == "ip") v = hex(b.get_ip_address(i));
                    else if (t == "nr") v = hex(b.get_name_rdata(i));
                    else if (t == "ct") { ClassType x = b.get_classtype(i); v = {x.type, x.class_}; }
                    else if (t == "qlist") v = b.get_question_list(i);
                    else if (t == "rrlist") v = b.get_rr_list(i);
                    else if (t == "q") { Question x = b.get_question(i); v = {x.name_index, x.classtype_index}; }
                    else if (t == "sig") { b.get_qr_signature(i); v = tables2j(b)["sig"][i]; }
                    else if (t == "rr") { b.get_rr(i); v = tables2j(b)["rr"][i]; }
                    else if (t == "mmd") { b.get_malformed_message_data(i); v = tables2j(b)["mmd"][i]; }
                    else v = "BADTABLE";
                }
                else if (o == "tables") v = tables2j(*slots[bi].blk);
                else if (o == "rec") {
                    CdnsBlock& b = *slots[bi].blk;
                    std::string k = op.at("k").get<std::string>();
                    auto st = j2stats(op);
                    if (k == "qr") v = b.add_question_response_record(j2qr(op.at("r")), st);
                    else if (k == "aec") v = b.add_address_event_count(j2aec(op.at("r")), st);
                    else v = b.add_malformed_message(j2mm(op.at("r")), st);
                }
                else if (o == "counts") { CdnsBlock& b = *slots[bi].blk; v = {b.get_qr_count(), b.get_aec_count(), b.get_mm_count(), b.get_item_count()}; }
                else if (o == "ser") v = hex(serialise(*slots[bi].blk, workdir));
                else if (o == "inv") v = invariants(*slots[bi].blk, op.value("unique", true));
                else if (o == "dump") {
                    if (!slots[bi].rd) v = "notread";
                    else { uint64_t rb = 0; CdnsBlockRead cp(*slots[bi].rd); v = block2j(cp, true, false, rb); }
                }
                else if (o == "read_some") {
                    // the application has already consumed part of this block through the generic read calls
                    if (!slots[bi].rd) v = "notread";
                    else {
                        bool end = false;
                        long nq = op.value("n", 1L), got = 0;
                        for (long k = 0; k < nq && !end; k++) { slots[bi].rd->read_generic_qr(end); if (!end) got++; }
                        end = false;
                        for (long k = 0; k < nq && !end; k++) { slots[bi].rd->read_generic_aec(end); if (!end) got++; }
                        end = false;
                        for (long k = 0; k < nq && !end; k++) { slots[bi].rd->read_generic_mm(end); if (!end) got++; }
                        v = got;
                    }
                }
                else if (o == "dump_inplace") {
                    if (!slots[bi].rd) v = "notread";
                    else { uint64_t rb = 0; v = block2j(*slots[bi].rd, true, false, rb); }
                }
                else v = "BADOP";
            }
            catch (std::exception& x) {
                v = {{"exc", exc_name(x)}};
            }
            res.push_back(v);
        }
        for (auto& s : slots) s.reset();
        json r = json::object();
        r["case"] = n - 1;
        r["id"] = c["id"];
        r["res"] = res;
        std::string s = r.dump();
        fwrite(s.data(), 1, s.size(), out);
        fputc('\n', out);
        fflush(out);
    }
    printf("DONE %ld\n", n);
    fclose(out);
    return 0;
}

}  // namespace cdns_verif
