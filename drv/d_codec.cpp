// "enc", "dec" and "ts" drivers: line-oriented, high-volume sweeps over CdnsEncoder, CdnsDecoder and Timestamp.
#include "common.h"
#include <inttypes.h>

namespace cdns_verif {
using namespace CDNS;

namespace {
std::string pattern(size_t n, unsigned seed) {
    std::string s(n, '\0');
    for (size_t i = 0; i < n; i++) s[i] = static_cast<char>((i * 7 + 3 + seed * 31) & 0xff);
    return s;
}
}

// Script (one op per line):
//   open name|fd none|gzip|xz <path>     create a CdnsEncoder on <path> (fd: the driver opens it)
//   fill <level>                          bring the staging buffer to <level> bytes using write_bytestring calls (each logged)
//   u8|u16|u32|u64 <v> | i8|i16|i32|i64 <v> | bool 0|1 | arr <n> | map <n> | iarr | imap | brk
//   bs|bsp|tx|txp <hex>                   byte/text string, std::string overload (bs,tx) or pointer overload (bsp,txp)
//   bsn|bspn|txn|txpn <len> <seed>        same with a generated pattern of <len> bytes
//   rot <path>                            rotate_output
//   close                                 destroy the encoder
// Result: one line per executed public call: "<op> <args> = <ret> @<fill before>"
int cmd_enc(int argc, char** argv) {
    if (argc < 4) { fprintf(stderr, "usage: vdrv enc script results\n"); return 2; }
    std::ifstream in(argv[2]);
    FILE* out = fopen(argv[3], "w");
    if (!in || !out) return 2;
    CdnsEncoder* e = nullptr;
    std::string kind;
    std::string line;
    long ln = 0;
    auto call = [&](const std::string& desc, std::function<std::size_t()> f) {
        std::size_t fill = e ? Access::enc_fill(*e) : 0;
        try {
            std::size_t r = f();
            fprintf(out, "%s = %zu @%zu%s\n", desc.c_str(), r, fill, (e && !Access::enc_consistent(*e)) ? " HOOKBAD" : "");
        }
        catch (std::exception& x) {
            fprintf(out, "%s = EXC %s @%zu\n", desc.c_str(), exc_name(x).c_str(), fill);
        }
    };
    while (std::getline(in, line)) {
        ln++;
        std::istringstream ls(line);
        std::string op;
        ls >> op;
        if (op.empty() || op[0] == '#') continue;
        if (op == "open") {
            std::string comp, path;
            ls >> kind >> comp >> path;
            delete e; e = nullptr;
            CborOutputCompression c = comp == "gzip" ? CborOutputCompression::GZIP : comp == "xz" ? CborOutputCompression::XZ : CborOutputCompression::NO_COMPRESSION;
            try {
                if (kind == "fd") { int fd = ::open(path.c_str(), O_CREAT | O_WRONLY | O_TRUNC, 0644); e = new CdnsEncoder(fd, c); }
                else e = new CdnsEncoder(path, c);
                fprintf(out, "open = ok %zu\n", static_cast<size_t>(CdnsEncoder::BUFFER_SIZE));
            }
            catch (std::exception& x) { fprintf(out, "open = EXC %s\n", exc_name(x).c_str()); }
            continue;
        }
        if (!e) { fprintf(out, "%s = NOENC\n", op.c_str()); continue; }
        if (op == "close") { delete e; e = nullptr; fprintf(out, "close = ok\n"); continue; }
        if (op == "rot") {
            std::string path; ls >> path;
            try {
                if (kind == "fd") { int fd = ::open(path.c_str(), O_CREAT | O_WRONLY | O_TRUNC, 0644); e->rotate_output(fd); }
                else e->rotate_output(path);
                fprintf(out, "rot = ok\n");
            }
            catch (std::exception& x) { fprintf(out, "rot = EXC %s\n", exc_name(x).c_str()); }
            continue;
        }
        if (op == "fill") {
            size_t target; ls >> target;
            const size_t B = CdnsEncoder::BUFFER_SIZE;
            auto filler = [&](size_t total) {
                // one byte string whose head + payload is `total` bytes where possible, otherwise one byte less
                size_t n;
                if (total <= 24) n = total - 1;
                else if (total == 25) n = 23;
                else if (total <= 257) n = total - 2;
                else if (total == 258) n = 255;
                else if (total <= 65538) n = total - 3;
                else n = total - 5;
                std::string p = pattern(n, static_cast<unsigned>(ln));
                call("bsn " + std::to_string(n) + " " + std::to_string(ln), [&] { return e->write_bytestring(p); });
            };
            for (int guard = 0; guard < 16; guard++) {
                size_t f = Access::enc_fill(*e);
                if (f == target) break;
                if (guard % 2 == 0) {
                    // aim directly (works when the encoder splits strings across its buffer)
                    size_t need = (target + B - f) % B;
                    filler(need == 0 ? B : need);
                }
                else {
                    // the direct attempt was upset by a flush policy (flush at the start of a call, strings kept in one piece,
                    // large strings written directly ...): empty the buffer with a string longer than it, then aim from zero
                    filler(((B - f) % B) + B);
                    if (Access::enc_fill(*e) != 0) {
                        std::string none;
                        call("bsn 0 " + std::to_string(ln), [&] { return e->write_bytestring(none); });
                    }
                }
            }
            fprintf(out, "fill = %zu\n", Access::enc_fill(*e));
            continue;
        }
        std::string rest;
        std::getline(ls, rest);
        std::string desc = op + rest;
        std::istringstream as(rest);
        if (op == "u8") { uint64_t v; as >> v; call(desc, [&] { return e->write(static_cast<uint8_t>(v)); }); }
        else if (op == "u16") { uint64_t v; as >> v; call(desc, [&] { return e->write(static_cast<uint16_t>(v)); }); }
        else if (op == "u32") { uint64_t v; as >> v; call(desc, [&] { return e->write(static_cast<uint32_t>(v)); }); }
        else if (op == "u64") { uint64_t v; as >> v; call(desc, [&] { return e->write(static_cast<uint64_t>(v)); }); }
        else if (op == "i8") { int64_t v; as >> v; call(desc, [&] { return e->write(static_cast<int8_t>(v)); }); }
        else if (op == "i16") { int64_t v; as >> v; call(desc, [&] { return e->write(static_cast<int16_t>(v)); }); }
        else if (op == "i32") { int64_t v; as >> v; call(desc, [&] { return e->write(static_cast<int32_t>(v)); }); }
        else if (op == "i64") { int64_t v; as >> v; call(desc, [&] { return e->write(static_cast<int64_t>(v)); }); }
        else if (op == "bool") { int v; as >> v; call(desc, [&] { return e->write(v != 0); }); }
        else if (op == "arr") { uint64_t v; as >> v; call(desc, [&] { return e->write_array_start(v); }); }
        else if (op == "map") { uint64_t v; as >> v; call(desc, [&] { return e->write_map_start(v); }); }
        else if (op == "iarr") call(desc, [&] { return e->write_indef_array_start(); });
        else if (op == "imap") call(desc, [&] { return e->write_indef_map_start(); });
        else if (op == "brk") call(desc, [&] { return e->write_break(); });
        else if (op == "bs" || op == "bsp" || op == "tx" || op == "txp" || op == "bsn" || op == "bspn" || op == "txn" || op == "txpn") {
            std::string s;
            if (op.back() == 'n') { size_t n; unsigned seed; as >> n >> seed; s = pattern(n, seed); }
            else { std::string h; as >> h; s = (h == "-") ? std::string() : unhex(h); }
            std::string base = op.back() == 'n' ? op.substr(0, op.size() - 1) : op;
            const unsigned char* p = reinterpret_cast<const unsigned char*>(s.data());
            if (base == "bs") call(desc, [&] { return e->write_bytestring(s); });
            else if (base == "bsp") call(desc, [&] { return e->write_bytestring(p, s.size()); });
            else if (base == "tx") call(desc, [&] { return e->write_textstring(s); });
            else call(desc, [&] { return e->write_textstring(p, s.size()); });
        }
        else fprintf(out, "%s = BADOP\n", op.c_str());
    }
    delete e;
    fclose(out);
    return 0;
}

// Cases: one JSON per line:
//  {"id":..,"stream":"sstream|ifstream|unopened","segs":[{"rep":"01","n":65523},{"hex":".."}...]|"path":..,
//   "ops":["peek","u","n","i","b","bs","tx","arr","map","brk","skip","arr_u"]}
// Result per case: {"id":..,"res":[...per op: value | {"exc":..}], "hook":bool}
int cmd_dec(int argc, char** argv) {
    if (argc < 5) { fprintf(stderr, "usage: vdrv dec cases tmpdir results [start]\n"); return 2; }
    std::ifstream in(argv[2]);
    std::string tmpdir = argv[3];
    FILE* out = fopen(argv[4], "a");
    long start = argc > 5 ? atol(argv[5]) : 0;
    if (!in || !out) return 2;
    std::string line;
    long n = 0;
    while (std::getline(in, line)) {
        if (n++ < start || line.empty()) continue;
        printf("BEGIN %ld\n", n - 1);
        fflush(stdout);
        json c = json::parse(line);
        std::string data;
        if (c.contains("segs")) {
            for (auto& s : c["segs"]) {
                if (s.contains("rep")) {
                    std::string u = unhex(s["rep"].get<std::string>());
                    size_t k = s["n"].get<size_t>();
                    data.reserve(data.size() + u.size() * k);
                    for (size_t i = 0; i < k; i++) data += u;
                }
                else data += unhex(s["hex"].get<std::string>());
            }
        }
        std::string kind = c.value("stream", std::string("sstream"));
        std::ifstream ifs;
        std::istringstream iss;
        std::istream* is = &iss;
        std::string tmp;
        if (kind == "unopened") is = &ifs;
        else if (kind == "ifstream") {
            if (c.contains("path")) ifs.open(c["path"].get<std::string>(), std::ios::binary);
            else {
                tmp = tmpdir + "/dec_" + std::to_string(getpid()) + ".bin";
                std::ofstream o(tmp, std::ios::binary);
                o.write(data.data(), data.size());
                o.close();
                ifs.open(tmp, std::ios::binary);
            }
            is = &ifs;
        }
        else {
            if (c.contains("path")) slurp(c["path"].get<std::string>(), data);
            iss.str(data);
        }
        json res = json::array();
        bool hook = true;
        bool indef = false;   // deliberately shared by all array/map starts of the case
        alloc_reset();
        try {
            CdnsDecoder d(*is);
            for (auto& oj : c.at("ops")) {
                std::string op = oj.get<std::string>();
                json v;
                try {
                    if (op == "peek") v = static_cast<int>(d.peek_type());
                    else if (op == "u") v = d.read_unsigned();
                    else if (op == "n") v = d.read_negative();
                    else if (op == "i") v = d.read_integer();
                    else if (op == "b") v = d.read_bool();
                    else if (op == "bs") v = hex(d.read_bytestring());
                    else if (op == "tx") v = hex(d.read_textstring());
                    else if (op == "arr") { uint64_t l = d.read_array_start(indef); v = {l, indef}; }
                    else if (op == "map") { uint64_t l = d.read_map_start(indef); v = {l, indef}; }
                    else if (op == "brk") { d.read_break(); v = "ok"; }
                    else if (op == "skip") { d.skip_item(); v = "ok"; }
                    else if (op == "arr_u") {
                        json a = json::array();
                        d.read_array([&a](CdnsDecoder& dd) { a.push_back(dd.read_unsigned()); });
                        v = a;
                    }
                    else v = "BADOP";
                }
                catch (std::exception& x) {
                    v = {{"exc", exc_name(x)}};
                }
                if (!Access::dec_consistent(d)) hook = false;
                res.push_back(v);
            }
        }
        catch (std::exception& x) {
            res.push_back({{"ctor_exc", exc_name(x)}});
        }
        if (!tmp.empty()) ::unlink(tmp.c_str());
        json r = json::object();
        r["case"] = n - 1;
        r["id"] = c["id"];
        r["res"] = res;
        r["hook"] = hook;
        r["alloc_max"] = alloc_max();
        std::string s = r.dump();
        fwrite(s.data(), 1, s.size(), out);
        fputc('\n', out);
        fflush(out);
    }
    printf("DONE %ld\n", n);
    fclose(out);
    return 0;
}

// Script lines:  off s t rs rt tps | add s t off tps | lt s t rs rt | le s t rs rt
// Result lines:  "<int64>" | "EXC"            (off)
//                "<secs> <ticks>" | "EXC <secs> <ticks>"   (add; the timestamp after the call in both cases)
//                "0|1"
int cmd_ts(int argc, char** argv) {
    if (argc < 4) { fprintf(stderr, "usage: vdrv ts script results\n"); return 2; }
    FILE* in = fopen(argv[2], "r");
    FILE* out = fopen(argv[3], "w");
    if (!in || !out) return 2;
    setvbuf(out, nullptr, _IOLBF, 0);      // every finished operation is on disk when a sanitizer stops the process
    char op[16];
    while (fscanf(in, "%15s", op) == 1) {
        if (!strcmp(op, "off")) {
            uint64_t s, t, rs, rt, tps;
            if (fscanf(in, "%" SCNu64 " %" SCNu64 " %" SCNu64 " %" SCNu64 " %" SCNu64, &s, &t, &rs, &rt, &tps) != 5) break;
            Timestamp a(s, t), r(rs, rt);
            try { fprintf(out, "%" PRId64 "\n", a.get_time_offset(r, tps)); }
            catch (std::exception&) { fprintf(out, "EXC\n"); }
        }
        else if (!strcmp(op, "add")) {
            uint64_t s, t, tps; int64_t off;
            if (fscanf(in, "%" SCNu64 " %" SCNu64 " %" SCNd64 " %" SCNu64, &s, &t, &off, &tps) != 4) break;
            Timestamp a(s, t);
            try { a.add_time_offset(off, tps); fprintf(out, "%" PRIu64 " %" PRIu64 "\n", a.m_secs, a.m_ticks); }
            catch (std::exception&) { fprintf(out, "EXC %" PRIu64 " %" PRIu64 "\n", a.m_secs, a.m_ticks); }
        }
        else if (!strcmp(op, "lt") || !strcmp(op, "le")) {
            uint64_t s, t, rs, rt;
            if (fscanf(in, "%" SCNu64 " %" SCNu64 " %" SCNu64 " %" SCNu64, &s, &t, &rs, &rt) != 4) break;
            Timestamp a(s, t), r(rs, rt);
            fprintf(out, "%d\n", !strcmp(op, "lt") ? (a < r) : (a <= r));
        }
        else { fprintf(out, "BADOP\n"); break; }
    }
    fclose(in);
    fclose(out);
    return 0;
}

}  // namespace cdns_verif
