// System-call interposition for crash-point (C15) and write-fault (C16) enumeration.
// The executable is linked -rdynamic, so libstdc++'s filebuf and the library's ::write/::close calls resolve to
// the definitions below.  They are pass-through unless a plan was configured (env VDRV_SYS), and they are
// compiled out under ThreadSanitizer (its runtime wants to see write/close itself).
#include "common.h"

#include <errno.h>
#include <cstdarg>
#include <functional>
#include <sys/syscall.h>
#include <sys/uio.h>

#if defined(__has_feature)
#if __has_feature(thread_sanitizer)
#define VDRV_NO_INTERPOSE 1
#endif
#endif
#if defined(__SANITIZE_THREAD__)
#define VDRV_NO_INTERPOSE 1
#endif

namespace {

struct Plan {
    bool active = false;
    std::string mode;       // count | crash | fault
    long k = 0;             // crash: index over all watched calls; fault: index over watched write/writev calls
    std::string err;        // ENOSPC | EIO | short
    long short_bytes = 0;
    bool persist = false;
    std::string watch;      // path prefix of watched files
    int logfd = -1;
    long n_all = 0, n_write = 0, injected = 0;
    std::string failed_path;  // destination hit by a persistent fault
    std::string rename_err;   // EXDEV | EBUSY: every rename of a watched file fails with it (any mode)
} plan;

std::string fd_path(int fd) {
    char link[64], buf[4096];
    snprintf(link, sizeof link, "/proc/self/fd/%d", fd);
    ssize_t n = readlink(link, buf, sizeof buf - 1);
    if (n <= 0) return "";
    buf[n] = 0;
    return buf;
}

bool watched(const std::string& p) {
    return !plan.watch.empty() && p.compare(0, plan.watch.size(), plan.watch) == 0;
}

void logline(const char* fmt, ...) {
    if (plan.logfd < 0) return;
    char buf[4600];
    va_list ap;
    va_start(ap, fmt);
    int n = vsnprintf(buf, sizeof buf, fmt, ap);
    va_end(ap);
    if (n > 0) syscall(SYS_write, plan.logfd, buf, static_cast<size_t>(n < (int)sizeof buf ? n : (int)sizeof buf - 1));
}

// returns true when the process must die before this call
void before_call(const char* name, const std::string& path, long req) {
    plan.n_all++;
    if (plan.mode == "crash" && plan.n_all == plan.k) {
        logline("{\"n\":%ld,\"call\":\"%s\",\"path\":\"%s\",\"req\":%ld,\"crash\":true}\n", plan.n_all, name, path.c_str(), req);
        syscall(SYS_exit_group, 99);
    }
}

}  // namespace

namespace cdns_verif {

void sys_configure(const json& p, const std::string& logpath) {
    plan = Plan();
    plan.mode = p.value("mode", std::string("count"));
    plan.k = p.value("k", 0L);
    plan.err = p.value("err", std::string("ENOSPC"));
    plan.short_bytes = p.value("short", 0L);
    plan.persist = p.value("persist", false);
    plan.watch = p.value("watch", std::string());
    plan.rename_err = p.value("rename_err", std::string());
    if (!logpath.empty())
        plan.logfd = static_cast<int>(syscall(SYS_open, logpath.c_str(), O_CREAT | O_WRONLY | O_APPEND, 0644));
    plan.active = true;
}

void sys_reset() {
    if (plan.logfd >= 0) syscall(SYS_close, plan.logfd);
    plan = Plan();
}

json sys_summary() {
    json j = json::object();
    j["active"] = plan.active; j["all"] = plan.n_all; j["writes"] = plan.n_write; j["injected"] = plan.injected;
    return j;
}

}  // namespace cdns_verif

#ifndef VDRV_NO_INTERPOSE

static ssize_t do_write_like(const char* name, int fd, long req, std::function<ssize_t()> real, std::function<ssize_t(long)> real_short) {
    if (!plan.active) return real();
    std::string p = fd_path(fd);
    if (!watched(p)) return real();
    before_call(name, p, req);
    plan.n_write++;
    bool hit = false;
    if (plan.mode == "fault") {
        if (plan.n_write == plan.k) hit = true;
        else if (plan.persist && plan.n_write > plan.k && !plan.failed_path.empty() && p == plan.failed_path) hit = true;
    }
    if (hit) {
        plan.injected++;
        if (plan.failed_path.empty()) plan.failed_path = p;
        if (plan.err == "short") {
            long nb = plan.short_bytes < req ? plan.short_bytes : (req > 0 ? req - 1 : 0);
            // a destination that keeps cutting writes short still accepts at least one byte per call: an endless series of
            // 0-returns for a 1-byte request is no behaviour of a real descriptor (that is what ENOSPC/EIO model), and libstdc++
            // would (legitimately) retry it for ever
            if (plan.persist && nb == 0 && req > 0) nb = req;
            ssize_t r = nb > 0 ? real_short(nb) : 0;
            logline("{\"n\":%ld,\"w\":%ld,\"call\":\"%s\",\"path\":\"%s\",\"req\":%ld,\"res\":%ld,\"injected\":\"short\"}\n", plan.n_all, plan.n_write, name, p.c_str(), req, (long)r);
            return r;
        }
        int e = plan.err == "EIO" ? EIO : ENOSPC;
        logline("{\"n\":%ld,\"w\":%ld,\"call\":\"%s\",\"path\":\"%s\",\"req\":%ld,\"res\":-1,\"injected\":\"%s\"}\n", plan.n_all, plan.n_write, name, p.c_str(), req, plan.err.c_str());
        errno = e;
        return -1;
    }
    ssize_t r = real();
    logline("{\"n\":%ld,\"w\":%ld,\"call\":\"%s\",\"path\":\"%s\",\"req\":%ld,\"res\":%ld}\n", plan.n_all, plan.n_write, name, p.c_str(), req, (long)r);
    return r;
}

extern "C" {

ssize_t write(int fd, const void* buf, size_t count) {
    return do_write_like("write", fd, static_cast<long>(count),
                         [&] { return static_cast<ssize_t>(syscall(SYS_write, fd, buf, count)); },
                         [&](long nb) { return static_cast<ssize_t>(syscall(SYS_write, fd, buf, static_cast<size_t>(nb))); });
}

ssize_t writev(int fd, const struct iovec* iov, int iovcnt) {
    long total = 0;
    for (int i = 0; i < iovcnt; i++) total += static_cast<long>(iov[i].iov_len);
    return do_write_like("writev", fd, total,
                         [&] { return static_cast<ssize_t>(syscall(SYS_writev, fd, iov, iovcnt)); },
                         [&](long nb) {
                             // short write: only the first nb bytes of the vector
                             long left = nb; ssize_t done = 0;
                             for (int i = 0; i < iovcnt && left > 0; i++) {
                                 size_t l = iov[i].iov_len < static_cast<size_t>(left) ? iov[i].iov_len : static_cast<size_t>(left);
                                 ssize_t r = syscall(SYS_write, fd, iov[i].iov_base, l);
                                 if (r < 0) return done ? done : r;
                                 done += r; left -= r;
                                 if (static_cast<size_t>(r) < l) break;
                             }
                             return done;
                         });
}

int rename(const char* oldp, const char* newp) {
    if (plan.active && oldp && watched(oldp)) {
        before_call("rename", oldp, 0);
        if (!plan.rename_err.empty()) {
            logline("{\"n\":%ld,\"call\":\"rename\",\"path\":\"%s\",\"to\":\"%s\",\"res\":-1,\"injected\":\"%s\"}\n", plan.n_all, oldp, newp, plan.rename_err.c_str());
            errno = plan.rename_err == "EBUSY" ? EBUSY : EXDEV;
            return -1;
        }
        int r = static_cast<int>(syscall(SYS_rename, oldp, newp));
        logline("{\"n\":%ld,\"call\":\"rename\",\"path\":\"%s\",\"to\":\"%s\",\"res\":%d}\n", plan.n_all, oldp, newp, r);
        return r;
    }
    return static_cast<int>(syscall(SYS_rename, oldp, newp));
}

int close(int fd) {
    if (plan.active && fd != plan.logfd) {
        std::string p = fd_path(fd);
        if (watched(p)) {
            before_call("close", p, 0);
            int r = static_cast<int>(syscall(SYS_close, fd));
            logline("{\"n\":%ld,\"call\":\"close\",\"path\":\"%s\",\"res\":%d}\n", plan.n_all, p.c_str(), r);
            return r;
        }
    }
    return static_cast<int>(syscall(SYS_close, fd));
}

}  // extern "C"

#endif
