// "read" driver: runs the real CdnsReader (and every accessor / renderer) over given bytes and dumps what it returned.
#include "common.h"

namespace cdns_verif {
using namespace CDNS;

json run_read_job(const json& job) {
    json r = json::object();
    r["id"] = job.at("id");
    std::string kind = job.value("stream", std::string("sstream"));
    std::string dump = job.value("dump", std::string("full"));
    bool tables = job.value("tables", false);
    bool render = job.value("render", false);
    uint64_t render_bytes = 0;
    double t0 = cpu_seconds();
    alloc_reset();

    std::string data;
    std::ifstream ifs;
    std::istringstream iss;
    std::istream* in = nullptr;
    if (kind == "unopened") {
        in = &ifs;  // never opened
    }
    else if (kind == "ifstream") {
        ifs.open(job.at("path").get<std::string>(), std::ifstream::binary);
        in = &ifs;
    }
    else {
        if (job.contains("hex")) data = unhex(job["hex"].get<std::string>());
        else if (!slurp(job.at("path").get<std::string>(), data)) { r["driver_error"] = "cannot read input"; return r; }
        if (job.contains("cut")) data.resize(std::min<size_t>(data.size(), job["cut"].get<size_t>()));
        r["input_len"] = data.size();
        iss.str(data);
        in = &iss;
    }

    json blocks = json::array();
    uint64_t nblocks = 0;
    bool hook_ok = true;
    // the other documented reading idiom: ONE CdnsBlockRead object that every block is assigned to.  What it returns must equal
    // what the fresh object of this iteration returns (address events compared as a multiset: their order is unspecified)
    bool reuse = job.value("reuse", dump == "full");
    CdnsBlockRead reused;
    auto canon = [](json j) {
        if (j.contains("aec") && j["aec"].is_array()) {
            std::vector<std::string> v;
            for (auto& a : j["aec"]) v.push_back(a.dump(-1, ' ', false, json::error_handler_t::replace));
            std::sort(v.begin(), v.end());
            j["aec"] = v;
        }
        return j.dump(-1, ' ', false, json::error_handler_t::replace);
    };
    try {
        CdnsReader reader(*in);
        r["hdr"] = "ok";
        if (dump != "none") r["preamble"] = preamble2j(reader.m_file_preamble);
        if (render) racc(render_bytes, reader.m_file_preamble.string());
        hook_ok = hook_ok && Access::dec_consistent(Access::rdr_decoder(reader));
        try {
            while (true) {
                bool eof = false;
                CdnsBlockRead b = reader.read_block(eof);
                hook_ok = hook_ok && Access::dec_consistent(Access::rdr_decoder(reader));
                if (eof) { r["end"] = "eof"; break; }
                nblocks++;
                if (reuse) reused = b;
                json bj = block2j(b, tables, render, render_bytes);
                if (reuse && !r.contains("reuse_differs")) {
                    try {
                        uint64_t dummy = 0;
                        json bj2 = block2j(reused, tables, false, dummy);
                        if (canon(bj2) != canon(bj)) r["reuse_differs"] = {{"block", nblocks - 1}};
                    }
                    catch (std::exception& e) {
                        r["reuse_differs"] = {{"block", nblocks - 1}, {"exc", exc_name(e)}, {"what", e.what()}};
                    }
                }
                if (dump == "full") blocks.push_back(bj);
                else if (dump == "counts") blocks.push_back(bj["counts"]);
                else if (dump == "hash") blocks.push_back(fnv64(bj.dump(-1, ' ', false, json::error_handler_t::replace)));
            }
        }
        catch (std::exception& e) {
            r["end"] = {{"exc", exc_name(e)}, {"what", e.what()}};
        }
    }
    catch (std::exception& e) {
        r["hdr"] = {{"exc", exc_name(e)}, {"what", e.what()}};
    }
    r["nblocks"] = nblocks;
    r["blocks"] = blocks;
    r["hook_ok"] = hook_ok;
    r["render_bytes"] = render_bytes;
    r["alloc_max"] = alloc_max();
    r["cpu"] = cpu_seconds() - t0;
    return r;
}

int cmd_read(int argc, char** argv) {
    // vdrv read <jobfile> <resultfile> [start]
    if (argc < 4) { fprintf(stderr, "usage: vdrv read jobs results [start]\n"); return 2; }
    std::ifstream in(argv[2]);
    FILE* out = fopen(argv[3], "a");
    long start = argc > 4 ? atol(argv[4]) : 0;
    if (!in || !out) { fprintf(stderr, "cannot open files\n"); return 2; }
    std::string line;
    long n = 0;
    while (std::getline(in, line)) {
        if (n++ < start || line.empty()) continue;
        printf("BEGIN %ld\n", n - 1);
        fflush(stdout);
        json job = json::parse(line);
        json r;
        try {
            r = run_read_job(job);
        }
        catch (std::exception& e) {
            // only std::exception-derived errors are caught here on purpose: anything else escapes and is a finding
            r = json::object();
            r["id"] = job["id"];
            r["escaped"] = {{"exc", exc_name(e)}, {"what", e.what()}};
        }
        r["case"] = n - 1;
        std::string s = r.dump(-1, ' ', false, json::error_handler_t::replace);
        fwrite(s.data(), 1, s.size(), out);
        fputc('\n', out);
        fflush(out);
    }
    printf("DONE %ld\n", n);
    fclose(out);
    return 0;
}

}  // namespace cdns_verif
