// "export" driver: executes generated API histories against CdnsExporter / CdnsBlock and logs every call.
#include "common.h"

namespace cdns_verif {
using namespace CDNS;

namespace {

struct Out {
    std::string id, kind, comp;
    std::string base;   // path given to the library (name) or path of the file behind the descriptor
    int fd = -1;
    std::string final_path() const {
        if (kind == "fd") return base;
        return base + (comp == "gzip" ? ".gz" : comp == "xz" ? ".xz" : "");
    }
};

CborOutputCompression comp_of(const std::string& c) {
    return c == "gzip" ? CborOutputCompression::GZIP : c == "xz" ? CborOutputCompression::XZ
                                                                 : CborOutputCompression::NO_COMPRESSION;
}

int open_fd(const std::string& path) {
    return ::open(path.c_str(), O_CREAT | O_WRONLY | O_TRUNC, 0644);
}

json snapshot(const Out& o) {
    json s = json::object();
    s["id"] = o.id;
    std::string data;
    std::string p = o.final_path();
    s["path"] = p;
    if (slurp(p, data)) {
        s["size"] = data.size(); s["fnv"] = fnv64(data); s["exists"] = true;
        struct stat fst;
        if (o.kind == "name" && ::stat(p.c_str(), &fst) == 0) s["mode"] = static_cast<int>(fst.st_mode & 0777);
    }
    else s["exists"] = false;
    struct stat st;
    s["part_exists"] = (o.kind == "name" && ::stat((p + ".part").c_str(), &st) == 0);
    return s;
}

template<typename F> void logged(std::vector<json>& log, int i, const char* op, F f) {
    json e = json::object();
    e["i"] = i;
    e["op"] = op;
    try {
        f(e);
    }
    catch (std::exception& x) {
        e["exc"] = exc_name(x);
        e["what"] = x.what();
    }
    log.push_back(e);
}

// Build a block directly through the block-level API ("blocks the application builds directly").
void fill_direct_block(CdnsBlock& b, const json& items, json& e) {
    json rets = json::array();
    for (auto& it : items) {
        std::string k = it.at("k").get<std::string>();
        auto st = j2stats(it);
        if (k == "qr") rets.push_back(b.add_question_response_record(j2qr(it.at("r")), st));
        else if (k == "aec") rets.push_back(b.add_address_event_count(j2aec(it.at("r")), st));
        else if (k == "mm") rets.push_back(b.add_malformed_message(j2mm(it.at("r")), st));
        else if (k == "rawqr") {
            const json& r = it.at("r");
            QueryResponse q;
            if (r.contains("ts")) q.time_offset = j2ts(r["ts"]);
            if (r.contains("cip")) q.client_address_index = b.add_ip_address(unhex(r["cip"].get<std::string>()));
            jopt(r, "cport", q.client_port);
            jopt(r, "tid", q.transaction_id);
            if (r.contains("sig")) {
                const json& s = r["sig"];
                QueryResponseSignature g;
                if (s.contains("sip")) g.server_address_index = b.add_ip_address(unhex(s["sip"].get<std::string>()));
                jopt(s, "sport", g.server_port); jopt(s, "tflags", g.qr_transport_flags); jopt(s, "qtype", g.qr_type);
                jopt(s, "sigflags", g.qr_sig_flags); jopt(s, "opcode", g.query_opcode); jopt(s, "dnsflags", g.qr_dns_flags);
                jopt(s, "qrcode", g.query_rcode);
                if (s.contains("qct")) { ClassType ct; ct.type = s["qct"][0].get<uint16_t>(); ct.class_ = s["qct"][1].get<uint16_t>(); g.query_classtype_index = b.add_classtype(ct); }
                jopt(s, "qd", g.query_qdcount); jopt(s, "an", g.query_ancount); jopt(s, "ns", g.query_nscount);
                jopt(s, "ar", g.query_arcount); jopt(s, "edns", g.query_edns_version); jopt(s, "udp", g.query_udp_size);
                if (s.contains("optrd")) g.query_opt_rdata_index = b.add_name_rdata(unhex(s["optrd"].get<std::string>()));
                jopt(s, "rrcode", g.response_rcode);
                q.qr_signature_index = b.add_qr_signature(g);
            }
            jopt(r, "hop", q.client_hoplimit);
            jopt_i(r, "delay", q.response_delay);
            if (r.contains("qname")) q.query_name_index = b.add_name_rdata(unhex(r["qname"].get<std::string>()));
            jopt(r, "qsize", q.query_size);
            jopt(r, "rsize", q.response_size);
            if (r.contains("rpd")) {
                ResponseProcessingData p;
                if (r["rpd"].contains("bail")) p.bailiwick_index = b.add_name_rdata(unhex(r["rpd"]["bail"].get<std::string>()));
                jopt(r["rpd"], "pflags", p.processing_flags);
                q.response_processing_data = p;
            }
            for (const char* which : {"qext", "rext"}) {
                if (!r.contains(which)) continue;
                const json& x = r[which];
                QueryResponseExtended ext;
                auto rrl = [&](const json& l) {
                    std::vector<GenericResourceRecord> v;
                    for (auto& rr : l) v.push_back(j2rr(rr));
                    return v;
                };
                if (x.contains("q")) ext.question_index = b.add_generic_qlist(rrl(x["q"]));
                if (x.contains("an")) ext.answer_index = b.add_generic_rrlist(rrl(x["an"]));
                if (x.contains("au")) ext.authority_index = b.add_generic_rrlist(rrl(x["au"]));
                if (x.contains("ad")) ext.additional_index = b.add_generic_rrlist(rrl(x["ad"]));
                if (std::string(which) == "qext") q.query_extended = ext; else q.response_extended = ext;
            }
            jopt_s(r, "asn", q.asn);
            jopt_s(r, "cc", q.country_code);
            jopt_i(r, "rtt", q.round_trip_time);
            rets.push_back(b.add_question_response_record(q, st));
        }
        else if (k == "rawmm") {
            const json& r = it.at("r");
            MalformedMessage m;
            if (r.contains("ts")) m.time_offset = j2ts(r["ts"]);
            if (r.contains("cip")) m.client_address_index = b.add_ip_address(unhex(r["cip"].get<std::string>()));
            jopt(r, "cport", m.client_port);
            if (r.contains("mmd")) {
                const json& d = r["mmd"];
                MalformedMessageData md;
                if (d.contains("sip")) md.server_address_index = b.add_ip_address(unhex(d["sip"].get<std::string>()));
                jopt(d, "sport", md.server_port); jopt(d, "tf", md.mm_transport_flags); jopt_s(d, "pl", md.mm_payload);
                m.message_data_index = b.add_malformed_message_data(md);
            }
            rets.push_back(b.add_malformed_message(m, st));
        }
        else if (k == "rawaec") {
            const json& r = it.at("r");
            AddressEventCount a;
            a.ae_type = static_cast<AddressEventTypeValues>(r.at("t").get<uint64_t>());
            jopt(r, "code", a.ae_code); jopt(r, "tf", a.ae_transport_flags);
            a.ae_address_index = b.add_ip_address(unhex(r.at("ip").get<std::string>()));
            rets.push_back(b.add_address_event_count(a, st));
        }
    }
    e["adds"] = rets;
    e["items"] = b.get_item_count();
}

}  // namespace

void run_export_case(const json& c, const std::string& workdir, std::vector<json>& log) {
    std::string cid = c.at("id").get<std::string>();
    json pj = c.at("preamble");
    std::vector<json> bps_json;
    for (auto& b : pj["bps"]) bps_json.push_back(b);
    FilePreamble fp = j2preamble(pj);

    Out cur;
    cur.id = c["open"].at("id").get<std::string>();
    cur.kind = c["open"].at("kind").get<std::string>();
    cur.comp = c["open"].at("comp").get<std::string>();
    cur.base = workdir + "/" + cid + "_" + cur.id;
    CdnsExporter* x = nullptr;
    {
        json e = json::object();
        e["i"] = -1; e["op"] = "ctor";
        try {
            if (cur.kind == "fd") { cur.fd = open_fd(cur.base); x = new CdnsExporter(fp, cur.fd, comp_of(cur.comp)); }
            else x = new CdnsExporter(fp, cur.base, comp_of(cur.comp));
        }
        catch (std::exception& ex) { e["exc"] = exc_name(ex); e["what"] = ex.what(); }
        log.push_back(e);
        if (!x) return;
    }

    int i = 0;
    // "ops", then (optionally) "recover": executed after the first call that threw when "stop_on_exc" is set, else at the end
    std::vector<json> script;
    for (auto& op : c.at("ops")) script.push_back(op);
    bool stop_on_exc = c.value("stop_on_exc", false);
    bool in_recovery = false;
    std::vector<json> recover;
    if (c.contains("recover")) for (auto& op : c["recover"]) recover.push_back(op);
    for (size_t si = 0; si < script.size(); si++) {
        json op = script[si];
        std::string o = op.at("op").get<std::string>();
        json pre = json::object();
        std::size_t fill = Access::enc_fill(Access::exp_encoder(*x));
        if (o == "qr") logged(log, i, "qr", [&](json& e) { e["ret"] = x->buffer_qr(j2qr(op.at("r")), j2stats(op)); });
        else if (o == "aec") logged(log, i, "aec", [&](json& e) { e["ret"] = x->buffer_aec(j2aec(op.at("r")), j2stats(op)); });
        else if (o == "mm") logged(log, i, "mm", [&](json& e) { e["ret"] = x->buffer_mm(j2mm(op.at("r")), j2stats(op)); });
        else if (o == "wb") logged(log, i, "wb", [&](json& e) { e["ret"] = x->write_block(); });
        else if (o == "setactive") logged(log, i, "setactive", [&](json& e) { e["ret"] = x->set_active_block_parameters(op.at("idx").get<index_t>()); });
        else if (o == "addbp") logged(log, i, "addbp", [&](json& e) {
            std::string how = op.value("how", std::string("plain"));
            if (how == "clone_active") {
                // "clone the active set": the argument is an element of the exporter's own parameter vector
                bps_json.push_back(json(bps_json.at(x->get_active_block_parameters())));
                e["ret"] = x->add_block_parameters(x->get_active_block_parameters_ref());
            }
            else {
                BlockParameters bp = j2bp(op.at("bp"));
                bps_json.push_back(op.at("bp"));
                e["ret"] = x->add_block_parameters(bp);
                if (how == "twice") {
                    // the same object used as a template again, with one member changed
                    json second = op.at("bp");
                    second["max"] = second.at("max").get<uint64_t>() + 1;
                    bp.storage_parameters.max_block_items += 1;
                    bps_json.push_back(second);
                    e["ret"] = x->add_block_parameters(bp);
                }
            }
        });
        else if (o == "edithints") logged(log, i, "edithints", [&](json& e) {
            BlockParameters& bp = x->get_active_block_parameters_ref();
            auto& h = bp.storage_parameters.storage_hints;
            if (op.contains("qrh")) h.query_response_hints = op["qrh"].get<uint32_t>();
            if (op.contains("sigh")) h.query_response_signature_hints = op["sigh"].get<uint32_t>();
            if (op.contains("rrh")) h.rr_hints = op["rrh"].get<uint8_t>();
            if (op.contains("oth")) h.other_data_hints = op["oth"].get<uint8_t>();
            if (op.contains("tps")) bp.storage_parameters.ticks_per_second = op["tps"].get<uint64_t>();
            if (op.contains("max")) bp.storage_parameters.max_block_items = op["max"].get<uint64_t>();
            json& bj = bps_json.at(x->get_active_block_parameters());
            for (const char* k : {"qrh", "sigh", "rrh", "oth", "tps", "max"}) if (op.contains(k)) bj[k] = op[k];
            e["ret"] = 0;
        });
        else if (o == "counters") logged(log, i, "counters", [&](json& e) {
            e["items"] = x->get_block_item_count(); e["qr"] = x->get_block_qr_count(); e["aec"] = x->get_block_aec_count();
            e["mm"] = x->get_block_mm_count(); e["blocks"] = x->get_blocks_written_count(); e["active"] = x->get_active_block_parameters();
        });
        else if (o == "dblock") logged(log, i, "dblock", [&](json& e) {
            index_t bi = op.at("bp").get<index_t>();
            BlockParameters bp = j2bp(bps_json.at(bi));
            // the configured, still empty block reaches the application's variable in one of the ways C++ offers
            std::string how = op.value("how", std::string("direct"));
            CdnsBlock b0(bp, bi);
            CdnsBlock b1 = how == "movector" ? CdnsBlock(std::move(b0)) : how == "copyctor" ? CdnsBlock(b0) : CdnsBlock();
            CdnsBlock b2;
            if (how == "moveassign") b2 = CdnsBlock(bp, bi);
            else if (how == "copyassign") b2 = b0;
            CdnsBlock& b = (how == "movector" || how == "copyctor") ? b1 : (how == "moveassign" || how == "copyassign") ? b2 : b0;
            fill_direct_block(b, op.at("items"), e);
            e["ret"] = x->write_block(b);
        });
        else if (o == "rotate_bad") {
            // rotation to a destination that cannot be opened (documented to throw): invalid descriptor / path in a missing directory
            bool exp = op.at("export").get<bool>();
            logged(log, i, "rotate_bad", [&](json& e) {
                e["closes"] = cur.id;
                std::string how = op.value("how", std::string("nodir"));
                if (cur.kind == "fd") e["ret"] = x->rotate_output(-1, exp);
                else if (how == "longname") {
                    // the final name is acceptable to the file system, '<name><suffix>.part' is 5 bytes too long for it
                    std::string sfx = cur.comp == "gzip" ? ".gz" : cur.comp == "xz" ? ".xz" : "";
                    std::string leaf = cid + "_" + op.at("id").get<std::string>() + "_";
                    leaf += std::string(253 - sfx.size() - leaf.size(), 'L');
                    e["ret"] = x->rotate_output(workdir + "/" + leaf, exp);
                }
                else if (how == "partdir") {
                    // something else (a directory) already sits at '<name><suffix>.part'
                    std::string sfx = cur.comp == "gzip" ? ".gz" : cur.comp == "xz" ? ".xz" : "";
                    std::string p = workdir + "/" + cid + "_" + op.at("id").get<std::string>();
                    ::mkdir((p + sfx + ".part").c_str(), 0755);
                    e["ret"] = x->rotate_output(p, exp);
                }
                else e["ret"] = x->rotate_output(workdir + "/no_such_directory/" + cid + "_x", exp);
            });
            log.back()["closed"] = snapshot(cur);
            Out none;
            none.id = op.at("id").get<std::string>();
            none.kind = cur.kind; none.comp = cur.comp;
            none.base = workdir + "/" + cid + "_" + none.id + ".never_opened";
            cur = none;
        }
        else if (o == "rotate") {
            Out nxt;
            nxt.id = op.at("id").get<std::string>();
            nxt.kind = cur.kind;
            nxt.comp = cur.comp;
            nxt.base = workdir + "/" + cid + "_" + nxt.id;
            bool exp = op.at("export").get<bool>();
            bool ok = false;
            logged(log, i, "rotate", [&](json& e) {
                e["closes"] = cur.id; e["opens"] = nxt.id;
                if (cur.kind == "fd") { nxt.fd = open_fd(nxt.base); e["ret"] = x->rotate_output(nxt.fd, exp); }
                else e["ret"] = x->rotate_output(nxt.base, exp);
                ok = true;
            });
            log.back()["closed"] = snapshot(cur);
            log.back()["sysw"] = sys_summary()["writes"];
            log.back()["phase"] = in_recovery ? "recover" : "main";
            if (!ok && op.value("retry", false)) {
                // the caller tries the rotation once more, to another fresh destination "<id>r"
                nxt.id += "r";
                nxt.base = workdir + "/" + cid + "_" + nxt.id;
                logged(log, i, "rotate_retry", [&](json& e) {
                    e["closes"] = cur.id; e["opens"] = nxt.id;
                    if (cur.kind == "fd") { nxt.fd = open_fd(nxt.base); e["ret"] = x->rotate_output(nxt.fd, exp); }
                    else e["ret"] = x->rotate_output(nxt.base, exp);
                    ok = true;
                });
                log.back()["closed"] = snapshot(cur);
            }
            if (ok) cur = nxt;
            else if (op.value("adopt_on_fail", false)) cur = nxt;
        }
        log.back()["fill"] = fill;
        log.back()["blocks_after"] = x->get_blocks_written_count();
        log.back()["sysw"] = sys_summary()["writes"];
        log.back()["phase"] = in_recovery ? "recover" : "main";
        i++;
        bool threw = log.back().contains("exc") || (log.size() >= 2 && log[log.size() - 2].value("i", -5) == i - 1 && log[log.size() - 2].contains("exc") && !in_recovery);
        if (!in_recovery && ((stop_on_exc && threw) || si + 1 == script.size()) && !recover.empty()) {
            in_recovery = true;
            script.resize(si + 1);
            for (auto& r : recover) script.push_back(r);
        }
    }
    {
        json e = json::object();
        e["i"] = i; e["op"] = "destroy";
        e["blocks_before"] = x->get_blocks_written_count();
        e["items_before"] = x->get_block_item_count();
        e["fill"] = Access::enc_fill(Access::exp_encoder(*x));
        delete x;
        e["closed"] = snapshot(cur);
        log.push_back(e);
    }
}

int cmd_export(int argc, char** argv) {
    // vdrv export <casefile> <workdir> <resultfile> [start]
    if (argc < 5) { fprintf(stderr, "usage: vdrv export cases workdir results [start]\n"); return 2; }
    std::ifstream in(argv[2]);
    std::string workdir = argv[3];
    FILE* out = fopen(argv[4], "a");
    long start = argc > 5 ? atol(argv[5]) : 0;
    if (!in || !out) { fprintf(stderr, "cannot open files\n"); return 2; }
    std::string line;
    long n = 0;
    while (std::getline(in, line)) {
        if (n++ < start || line.empty()) continue;
        printf("BEGIN %ld\n", n - 1);
        fflush(stdout);
        json c = json::parse(line);
        std::vector<json> log;
        try {
            run_export_case(c, workdir, log);
        }
        catch (std::exception& e) {
            json j = json::object();
            j["op"] = "driver"; j["exc"] = exc_name(e); j["what"] = e.what();
            log.push_back(j);
        }
        json r = json::object();
        r["case"] = n - 1;
        r["id"] = c["id"];
        r["log"] = log;
        std::string s = r.dump();
        fwrite(s.data(), 1, s.size(), out);
        fputc('\n', out);
        fflush(out);
    }
    printf("DONE %ld\n", n);
    fclose(out);
    return 0;
}

}  // namespace cdns_verif
