// vdrv: verification driver executable (sub-commands), allocation monitor, multi-threaded runner (C20).
#include "common.h"

#include <atomic>
#include <chrono>
#include <random>
#include <thread>

#if defined(__has_feature)
#if __has_feature(address_sanitizer) || __has_feature(thread_sanitizer)
#define VDRV_HAVE_SAN_HOOKS 1
#endif
#endif

#ifdef VDRV_HAVE_SAN_HOOKS
#include <sanitizer/allocator_interface.h>
#endif

namespace cdns_verif {

static thread_local uint64_t t_alloc_max = 0;

#ifdef VDRV_HAVE_SAN_HOOKS
static void malloc_hook(const volatile void*, size_t size) {
    if (size > t_alloc_max) t_alloc_max = size;
}
static void free_hook(const volatile void*) {}
#endif

void alloc_reset() { t_alloc_max = 0; }
uint64_t alloc_max() { return t_alloc_max; }

static uint64_t now_ns() {
    return std::chrono::duration_cast<std::chrono::nanoseconds>(std::chrono::steady_clock::now().time_since_epoch()).count();
}

// Threads run independent export histories, read their own uncompressed outputs back and render them.
// Each job is time-stamped from one monotonic clock so that the checker can count overlapping executions.
int cmd_mt(int argc, char** argv) {
    // vdrv mt <cases> <workdir> <results> <threads> <seed>
    if (argc < 7) { fprintf(stderr, "usage: vdrv mt cases workdir results threads seed\n"); return 2; }
    std::ifstream in(argv[2]);
    std::string workdir = argv[3];
    FILE* out = fopen(argv[4], "w");
    int T = atoi(argv[5]);
    unsigned seed = static_cast<unsigned>(atol(argv[6]));
    if (!in || !out || T < 1) return 2;
    std::vector<json> cases;
    std::string line;
    while (std::getline(in, line))
        if (!line.empty()) cases.push_back(json::parse(line));
    std::vector<json> results(cases.size());
    mode_t umask_before = umask(0);
    umask(umask_before);
    std::atomic<int> ready{0};
    std::atomic<bool> go{false};
    auto worker = [&](int tid) {
        std::mt19937 rng(seed * 7919u + static_cast<unsigned>(tid));
        std::string prev_path, first_path;
        json prev_blocks;
        ready++;
        while (!go.load()) std::this_thread::yield();
        for (size_t i = static_cast<size_t>(tid); i < cases.size(); i += static_cast<size_t>(T)) {
            json r = json::object();
            r["id"] = cases[i]["id"];
            r["tid"] = tid;
            if (rng() % 3 == 0) std::this_thread::yield();
            if (rng() % 7 == 0) std::this_thread::sleep_for(std::chrono::microseconds(rng() % 300));
            r["t0"] = now_ns();
            std::vector<json> log;
            try {
                run_export_case(cases[i], workdir, log);
            }
            catch (std::exception& e) {
                log.push_back({{"op", "driver"}, {"exc", exc_name(e)}, {"what", e.what()}});
            }
            r["log"] = log;
            json reads = json::array();
            if (cases[i]["open"]["comp"] == "none") {
                for (auto& e : log) {
                    if (!e.contains("closed") || !e["closed"].value("exists", false)) continue;
                    if (e["closed"].value("size", 0) == 0) continue;
                    json job = {{"id", e["closed"]["id"]}, {"path", e["closed"]["path"]}, {"stream", (std::hash<std::string>()(cases[i]["id"].get<std::string>()) & 1) ? "ifstream" : "sstream"},
                                {"dump", "full"}, {"tables", true}, {"render", true}};
                    json rr = run_read_job(job);
                    if (reads.empty()) first_path = e["closed"]["path"].get<std::string>();
                    rr.erase("cpu");
                    rr.erase("alloc_max");
                    reads.push_back(rr);
                }
            }
            r["reads"] = reads;
            // inputs the library's own encoder never produces (chunked strings, indefinite containers, widened heads, unknown members
            // that are skipped): every thread decodes them with its own reader; the result must not depend on what other threads do
            if (cases[i].contains("foreign")) {
                json fr = json::array();
                for (auto& fp : cases[i]["foreign"]) {
                    json job = {{"id", fp}, {"path", fp}, {"stream", (i & 1) ? "ifstream" : "sstream"}, {"dump", "full"}, {"tables", true}, {"render", true}};
                    json rr = run_read_job(job);
                    rr.erase("cpu");
                    rr.erase("alloc_max");
                    fr.push_back(rr);
                }
                r["foreign_reads"] = fr;
            }
            // two readers alive on this thread at the same time, used alternately block by block: each must return what it returns when it
            // is the only reader (independent instances share nothing, whichever thread they live on)
            if (!reads.empty() && reads[0].value("hdr", json()) == "ok" && reads[0].value("end", json()) == "eof") {
                if (!prev_path.empty()) {
                    try {
                        std::ifstream fa(prev_path, std::ifstream::binary), fb(first_path, std::ifstream::binary);
                        CDNS::CdnsReader ra(fa), rb(fb);
                        json ba = json::array(), bb = json::array();
                        bool ea = false, eb = false;
                        uint64_t dummy = 0;
                        while (!ea || !eb) {
                            if (!ea) { bool eof = false; CDNS::CdnsBlockRead b = ra.read_block(eof); if (eof) ea = true; else ba.push_back(block2j(b, true, false, dummy)); }
                            if (!eb) { bool eof = false; CDNS::CdnsBlockRead b = rb.read_block(eof); if (eof) eb = true; else bb.push_back(block2j(b, true, false, dummy)); }
                        }
                        r["interleaved"] = (ba == prev_blocks && bb == reads[0]["blocks"]) ? "same" : "differs";
                    }
                    catch (std::exception& e) {
                        r["interleaved"] = std::string("exception: ") + e.what();
                    }
                }
                prev_path = first_path;
                prev_blocks = reads[0]["blocks"];
            }
            r["t1"] = now_ns();
            results[i] = r;
        }
    };
    std::vector<std::thread> th;
    for (int t = 0; t < T; t++) th.emplace_back(worker, t);
    while (ready.load() < T) std::this_thread::yield();
    go.store(true);
    for (auto& t : th) t.join();
    for (auto& r : results) {
        std::string s = r.dump(-1, ' ', false, json::error_handler_t::replace);
        fwrite(s.data(), 1, s.size(), out);
        fputc('\n', out);
    }
    fclose(out);
    {
        // process-wide state the library must leave alone
        mode_t m = umask(0);
        umask(m);
        printf("UMASK %o %o\n", static_cast<unsigned>(umask_before), static_cast<unsigned>(m));
    }
    printf("DONE %zu\n", cases.size());
    return 0;
}

}  // namespace cdns_verif

int main(int argc, char** argv) {
    using namespace cdns_verif;
#ifdef VDRV_HAVE_SAN_HOOKS
    __sanitizer_install_malloc_and_free_hooks(malloc_hook, free_hook);
#endif
    if (argc < 2) { fprintf(stderr, "usage: vdrv <export|read|enc|dec|ts|table|writer|mt> ...\n"); return 2; }
    const char* sys = getenv("VDRV_SYS");
    if (sys && *sys) {
        const char* lp = getenv("VDRV_SYSLOG");
        sys_configure(json::parse(sys), lp ? lp : "");
    }
    std::string c = argv[1];
    int rc = 2;
    if (c == "export") rc = cmd_export(argc, argv);
    else if (c == "read") rc = cmd_read(argc, argv);
    else if (c == "enc") rc = cmd_enc(argc, argv);
    else if (c == "dec") rc = cmd_dec(argc, argv);
    else if (c == "ts") rc = cmd_ts(argc, argv);
    else if (c == "table") rc = cmd_table(argc, argv);
    else if (c == "writer") rc = cmd_writer(argc, argv);
    else if (c == "mt") rc = cmd_mt(argc, argv);
    else fprintf(stderr, "unknown sub-command %s\n", c.c_str());
    if (sys && *sys) {
        json s = sys_summary();
        printf("SYS %s\n", s.dump().c_str());
    }
    return rc;
}
