// "writer" driver: feeds chunk sequences to the output writers (C14) and to CdnsEncoder as the plain reference.
#include "common.h"

namespace cdns_verif {
using namespace CDNS;

// Case (one JSON per line):
//  {"id":..,"w":"none|gzip|xz","kind":"name|fd","data":"<path of input bytes>","out":"<base path>",
//   "steps":[{"n":1234}|{"rot":true}...]}     chunks are consecutive slices of the data file
//   "via":"writer"|"encoder"                   writer: BaseCborOutputWriter::write; encoder: CdnsEncoder::write_bytestring is NOT used (raw)
// Outputs are <out>.<k>[suffix] for k = 0.. (one per rotation); result: {"id","outs":[paths], "log":[...]}
int cmd_writer(int argc, char** argv) {
    if (argc < 4) { fprintf(stderr, "usage: vdrv writer cases results [start]\n"); return 2; }
    std::ifstream in(argv[2]);
    FILE* out = fopen(argv[3], "a");
    long start = argc > 4 ? atol(argv[4]) : 0;
    if (!in || !out) return 2;
    std::string line;
    long n = 0;
    while (std::getline(in, line)) {
        if (n++ < start || line.empty()) continue;
        printf("BEGIN %ld\n", n - 1);
        fflush(stdout);
        json c = json::parse(line);
        std::string w = c.at("w").get<std::string>(), kind = c.at("kind").get<std::string>();
        std::string base = c.at("out").get<std::string>();
        std::string data;
        slurp(c.at("data").get<std::string>(), data);
        std::string suffix = kind == "fd" ? "" : (w == "gzip" ? ".gz" : w == "xz" ? ".xz" : "");
        json outs = json::array(), log = json::array();
        int k = 0;
        auto path_k = [&](int i) { return base + "." + std::to_string(i); };
        std::unique_ptr<BaseCborOutputWriter> wr;
        try {
            auto make = [&](int i) -> std::unique_ptr<BaseCborOutputWriter> {
                if (kind == "fd") {
                    int fd = ::open(path_k(i).c_str(), O_CREAT | O_WRONLY | O_TRUNC, 0644);
                    if (w == "gzip") return std::unique_ptr<BaseCborOutputWriter>(new GzipCborOutputWriter(fd));
                    if (w == "xz") return std::unique_ptr<BaseCborOutputWriter>(new XzCborOutputWriter(fd));
                    return std::unique_ptr<BaseCborOutputWriter>(new CborOutputWriter(fd));
                }
                if (w == "gzip") return std::unique_ptr<BaseCborOutputWriter>(new GzipCborOutputWriter(path_k(i)));
                if (w == "xz") return std::unique_ptr<BaseCborOutputWriter>(new XzCborOutputWriter(path_k(i)));
                return std::unique_ptr<BaseCborOutputWriter>(new CborOutputWriter(path_k(i)));
            };
            wr = make(0);
            outs.push_back(path_k(0) + suffix);
            size_t pos = 0;
            for (auto& s : c.at("steps")) {
                if (s.contains("rot")) {
                    k++;
                    if (kind == "fd") { int fd = ::open(path_k(k).c_str(), O_CREAT | O_WRONLY | O_TRUNC, 0644); wr->rotate_output(boost::any(fd)); }
                    else wr->rotate_output(boost::any(path_k(k)));
                    outs.push_back(path_k(k) + suffix);
                    log.push_back("rot");
                }
                else {
                    size_t len = s.at("n").get<size_t>();
                    if (pos + len > data.size()) len = data.size() - pos;
                    wr->write(data.data() + pos, len);
                    pos += len;
                    log.push_back(len);
                }
            }
            wr.reset();
            log.push_back("closed");
        }
        catch (std::exception& x) {
            log.push_back({{"exc", exc_name(x)}, {"what", x.what()}});
            try { wr.reset(); } catch (...) {}
        }
        json r = json::object();
        r["case"] = n - 1;
        r["id"] = c["id"];
        r["outs"] = outs;
        r["log"] = log;
        std::string s = r.dump();
        fwrite(s.data(), 1, s.size(), out);
        fputc('\n', out);
        fflush(out);
    }
    printf("DONE %ld\n", n);
    fclose(out);
    return 0;
}

}  // namespace cdns_verif
