// "writer" driver: feeds chunk sequences to the output writers (C14) and to CdnsEncoder as the plain reference.
#include "common.h"
#include <thread>

namespace cdns_verif {
using namespace CDNS;

// Case (one JSON per line):
//  {"id":..,"w":"none|gzip|xz","kind":"name|fd","data":"<path of input bytes>","out":"<base path>",
//   "steps":[{"n":1234}|{"rot":true}...]}     chunks are consecutive slices of the data file
//   "via":"writer"|"encoder"                   writer: BaseCborOutputWriter::write; encoder: CdnsEncoder::write_bytestring is NOT used (raw)
// Outputs are <out>.<k>[suffix] for k = 0.. (one per rotation); result: {"id","outs":[paths], "log":[...]}
static json run_writer_case(const json& c) {
    std::string w = c.at("w").get<std::string>(), kind = c.at("kind").get<std::string>();
    std::string base = c.at("out").get<std::string>();
    std::string data;
    slurp(c.at("data").get<std::string>(), data);
    std::string suffix = kind == "fd" ? "" : (w == "gzip" ? ".gz" : w == "xz" ? ".xz" : "");
    json outs = json::array(), log = json::array();
    int k = 0;
    auto path_k = [&](int i) { return base + "." + std::to_string(i); };
    std::unique_ptr<BaseCborOutputWriter> wr;
    try {
        auto make = [&](int i) -> std::unique_ptr<BaseCborOutputWriter> {
            if (kind == "fd") {
                int fd = (i == 0 && c.value("dev_full_first", false)) ? ::open("/dev/full", O_WRONLY)
                                                                        : ::open(path_k(i).c_str(), O_CREAT | O_WRONLY | O_TRUNC, 0644);
                if (w == "gzip") return std::unique_ptr<BaseCborOutputWriter>(new GzipCborOutputWriter(fd));
                if (w == "xz") return std::unique_ptr<BaseCborOutputWriter>(new XzCborOutputWriter(fd));
                return std::unique_ptr<BaseCborOutputWriter>(new CborOutputWriter(fd));
            }
            if (w == "gzip") return std::unique_ptr<BaseCborOutputWriter>(new GzipCborOutputWriter(path_k(i)));
            if (w == "xz") return std::unique_ptr<BaseCborOutputWriter>(new XzCborOutputWriter(path_k(i)));
            return std::unique_ptr<BaseCborOutputWriter>(new CborOutputWriter(path_k(i)));
        };
        wr = make(0);
        outs.push_back(path_k(0) + suffix);
        size_t pos = 0;
        bool tolerate = c.value("continue_after_exception", false);
        int nsnap = 0;
        // rotation onto the name that is being written (e.g. names derived from a clock that has not advanced): the output closed by it
        // is copied aside at once, because the next close replaces it
        auto rotate_same = [&]() {
            wr->rotate_output(boost::any(path_k(k)));
            std::string fin = path_k(k) + suffix, snap = fin + ".snap" + std::to_string(nsnap++);
            std::string content;
            json e = {{"rot_same", true}, {"final_exists", slurp(fin, content)}, {"snap", snap}};
            if (e["final_exists"].get<bool>()) { std::ofstream o(snap, std::ofstream::binary); o.write(content.data(), static_cast<std::streamsize>(content.size())); }
            log.push_back(e);
        };
        for (auto& s : c.at("steps")) {
            if (tolerate) {
                // fault scenarios: a failing step is logged and the sequence goes on
                try {
                    if (s.contains("rot") && s.value("same", false) && kind != "fd") {
                        rotate_same();
                    }
                    else if (s.contains("rot")) {
                        k++;
                        if (kind == "fd") { int fd = ::open(path_k(k).c_str(), O_CREAT | O_WRONLY | O_TRUNC, 0644); wr->rotate_output(boost::any(fd)); }
                        else wr->rotate_output(boost::any(path_k(k)));
                        outs.push_back(path_k(k) + suffix);
                        log.push_back("rot");
                    }
                    else {
                        size_t len = s.at("n").get<size_t>();
                        if (pos + len > data.size()) len = data.size() - pos;
                        size_t at = pos;
                        pos += len;
                        wr->write(data.data() + at, len);
                        log.push_back(len);
                    }
                }
                catch (std::exception& x) {
                    log.push_back({{"exc", exc_name(x)}, {"step", s}});
                }
                continue;
            }
            if (s.contains("rot") && s.value("same", false) && kind != "fd") {
                rotate_same();
            }
            else if (s.contains("rot")) {
                k++;
                if (kind == "fd") { int fd = ::open(path_k(k).c_str(), O_CREAT | O_WRONLY | O_TRUNC, 0644); wr->rotate_output(boost::any(fd)); }
                else wr->rotate_output(boost::any(path_k(k)));
                outs.push_back(path_k(k) + suffix);
                log.push_back("rot");
            }
            else {
                size_t len = s.at("n").get<size_t>();
                if (pos + len > data.size()) len = data.size() - pos;
                wr->write(data.data() + pos, len);
                pos += len;
                log.push_back(len);
            }
        }
        wr.reset();
        log.push_back("closed");
    }
    catch (std::exception& x) {
        log.push_back({{"exc", exc_name(x)}, {"what", x.what()}});
        try { wr.reset(); } catch (...) {}
    }
    json r = json::object();
    r["id"] = c["id"];
    r["outs"] = outs;
    r["log"] = log;
    return r;
}

int cmd_writer(int argc, char** argv) {
    if (argc < 4) { fprintf(stderr, "usage: vdrv writer cases results [start] [threads]\n"); return 2; }
    std::ifstream in(argv[2]);
    FILE* out = fopen(argv[3], "a");
    long start = argc > 4 ? atol(argv[4]) : 0;
    int threads = getenv("VDRV_THREADS") ? atoi(getenv("VDRV_THREADS")) : 1;
    if (!in || !out) return 2;
    std::string line;
    long n = 0;
    if (threads > 1) {
        // independent writer instances used concurrently (each case has its own outputs)
        std::vector<json> cases;
        while (std::getline(in, line)) if (!line.empty()) cases.push_back(json::parse(line));
        std::vector<json> results(cases.size());
        std::vector<std::thread> th;
        printf("BEGIN 0\n");
        fflush(stdout);
        for (int t = 0; t < threads; t++)
            th.emplace_back([&, t] {
                for (size_t i = static_cast<size_t>(t); i < cases.size(); i += static_cast<size_t>(threads)) {
                    results[i] = run_writer_case(cases[i]);
                    results[i]["case"] = i;
                }
            });
        for (auto& t : th) t.join();
        for (auto& r : results) { std::string s = r.dump(); fwrite(s.data(), 1, s.size(), out); fputc('\n', out); }
        printf("DONE %zu\n", cases.size());
        fclose(out);
        return 0;
    }
    while (std::getline(in, line)) {
        if (n++ < start || line.empty()) continue;
        printf("BEGIN %ld\n", n - 1);
        fflush(stdout);
        json c = json::parse(line);
        json r = run_writer_case(c);
        r["case"] = n - 1;
        std::string s = r.dump();
        fwrite(s.data(), 1, s.size(), out);
        fputc('\n', out);
        fflush(out);
    }
    printf("DONE %ld\n", n);
    fclose(out);
    return 0;
}

}  // namespace cdns_verif
