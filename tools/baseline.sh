#!/bin/bash
# Build /repo (or $1) WITHOUT the CDNS_VERIF guard in a scratch dir outside /repo and /verif,
# run the repository's own test suite, compare with /root/.vp/BASELINE.json, delete the scratch dir.
set -u
SRC=${1:-/repo}
D=$(mktemp -d /tmp/cdns-baseline.XXXXXX)
trap 'rm -rf "$D"' EXIT
cmake -G Ninja -S "$SRC" -B "$D" -DBUILD_TESTS=ON -DBUILD_DOC=OFF -DCMAKE_BUILD_TYPE=RelWithDebInfo -DCMAKE_CXX_FLAGS=-Wno-error >"$D/cmake.log" 2>&1 || { cat "$D/cmake.log"; echo "BASELINE: configure failed"; exit 2; }
cmake --build "$D" -j16 >"$D/build.log" 2>&1 || { tail -50 "$D/build.log"; echo "BASELINE: build failed"; exit 2; }
ctest --test-dir "$D" -j8 --timeout 900 --output-junit "$D/junit.xml" >"$D/ctest.log" 2>&1
CT=$?
timeout 900 "$D/tests/tests" --gtest_output=xml:"$D/gtest.xml" >"$D/gtest.log" 2>&1
python3 - "$D" "$CT" <<'P'
import sys, json, xml.etree.ElementTree as ET
d, ct = sys.argv[1], int(sys.argv[2])
base = set(json.load(open('/root/.vp/BASELINE.json'))['stable_pass'])
passed = set()
try:
    for tc in ET.parse(d + '/gtest.xml').getroot().iter('testcase'):
        ok = not list(tc.iter('failure')) and not list(tc.iter('error'))
        if ok: passed.add(tc.get('classname') + '::' + tc.get('name'))
except Exception as e:
    print('BASELINE: cannot parse gtest xml:', e)
if ct == 0: passed.add('UnitTests::UnitTests')
missing = sorted(base - passed)
print('BASELINE: passed=%d of baseline=%d missing=%d' % (len(passed & base), len(base), len(missing)))
for m in missing: print('  MISSING', m)
sys.exit(0 if not missing else 1)
P
