#!/bin/bash
# Runs every confirmed seeded change in /verif/seeded against the quick check of the property it breaks (on a scratch copy
# of /repo, never /repo itself) and writes /verif/seeded/RESULTS.tsv.  usage: sweep_seeded.sh [jobs]
cd /verif
J=${1:-2}
rm -f /tmp/seeded_results.*.tsv
ls -d seeded/C* | sort > /tmp/seeded_list.txt
run_part() {
  part=$1
  awk -v p=$part -v j=$J 'NR % j == p' /tmp/seeded_list.txt | while read d; do
    id=$(basename $d); P=${id:0:3}
    ok=$(python3 -c "import json;print(json.load(open('$d/meta.json'))['confirmed'])" 2>/dev/null)
    [ "$ok" = "True" ] || continue
    R=$(TIER=quick LINES_MAX=60 tools/try_mutant.sh /verif/$d/patch.diff -- $P 2>&1)
    V=$(echo "$R" | grep -c "^VIOLATION")
    K=$(echo "$R" | grep "key :" | head -3 | sed 's/  key : //' | tr '\n' ' ')
    I=$(echo "$R" | grep -c "INCONCLUSIVE")
    echo -e "$id\t$P\tviolation_keys=$V\tinconclusive=$I\t$K" >> /tmp/seeded_results.$part.tsv
  done
}
for p in $(seq 0 $((J-1))); do run_part $p & done
wait
cat /tmp/seeded_results.*.tsv | sort > seeded/RESULTS.tsv
wc -l seeded/RESULTS.tsv
