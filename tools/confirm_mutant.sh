#!/bin/bash
# usage: confirm_mutant.sh <Cxx> <mN>   -> /verif/seeded/<Cxx>-<mN>/{patch.diff,demo*,notes.md,meta.json}
# Confirms: patch applies to /repo HEAD, mutated tree builds and passes the repository tests (hooks off),
# demonstration passes on the clean tree and fails on the mutated one.
P=$1; M=$2
BASE=${MUTBASE:-/tmp/mut}
TAG=${MUTTAG:-}
SRC=$BASE/$P/_mutants/$M
PROP=${PROP:-$P}
DST=/verif/seeded/$PROP-$TAG$M
[ -f $SRC/patch.diff ] || { echo "no patch $SRC"; exit 2; }
D=$(mktemp -d /tmp/cm.XXXXXX)
trap 'rm -rf "$D"' EXIT
mkdir -p $D/mut $D/clean
( cd /repo && git archive HEAD ) | tar -x -C $D/mut
( cd /repo && git archive HEAD ) | tar -x -C $D/clean
APPLY=ok
( cd $D/mut && git apply $SRC/patch.diff ) || APPLY=failed
TESTS=skipped; DEMO_CLEAN=skipped; DEMO_MUT=skipped
if [ $APPLY = ok ]; then
  if /verif/tools/baseline.sh $D/mut > $D/tests.log 2>&1; then TESTS=pass; else TESTS=fail; fi
  ( cd $SRC && timeout 900 bash ./build_and_run.sh $D/clean > $D/demo_clean.log 2>&1 ); DEMO_CLEAN=$?
  ( cd $SRC && timeout 900 bash ./build_and_run.sh $D/mut > $D/demo_mut.log 2>&1 ); DEMO_MUT=$?
fi
mkdir -p $DST
cp $SRC/patch.diff $DST/
cp $SRC/notes.md $DST/ 2>/dev/null
for f in $SRC/demo.* $SRC/build_and_run.sh $SRC/*.h; do [ -f $f ] && cp $f $DST/; done
python3 - "$PROP" "$TAG$M" "$APPLY" "$TESTS" "$DEMO_CLEAN" "$DEMO_MUT" "$D" "$SRC" <<'PY'
import json, sys, subprocess
p, m, apply_, tests, dc, dm, d, src = sys.argv[1:9]
head = subprocess.check_output(['git', '-C', '/repo', 'log', '-1', '--format=%h']).decode().strip()
prop = [json.loads(l) for l in open('/verif/properties.jsonl') if json.loads(l)['id'] == p][0]
notes = ''
try:
    notes = open(src + '/notes.md').read()
except OSError:
    pass
tail = lambda f: open(f, errors='replace').read()[-600:] if __import__('os').path.exists(f) else ''
meta = {'id': '%s-%s' % (p, m), 'property': p, 'property_title': prop['title'], 'origin': 'independent sub-agent given only the property text and a scratch worktree',
        'repo_head_when_confirmed': head, 'patch_applies': apply_, 'repository_tests_with_patch': tests,
        'demo_exit_on_clean_tree': dc, 'demo_exit_on_patched_tree': dm,
        'confirmed': apply_ == 'ok' and tests == 'pass' and dc == '0' and dm not in ('0', 'skipped'),
        'needs_to_manifest': notes[:1500], 'ran': ['patch -p1 < patch.diff on a git-archive copy of /repo HEAD', 'tools/baseline.sh <copy> (cmake+ninja, ctest, hooks off)', 'build_and_run.sh <clean copy>', 'build_and_run.sh <patched copy>'],
        'demo_output_patched_tail': tail(d + '/demo_mut.log'), 'tests_output': tail(d + '/tests.log')[-200:]}
json.dump(meta, open('/verif/seeded/%s-%s/meta.json' % (p, m), 'w'), indent=1)
print(meta['id'], 'apply=%s tests=%s demo_clean=%s demo_mut=%s confirmed=%s' % (apply_, tests, dc, dm, meta['confirmed']))
PY
