#!/bin/bash
# confirms the round-3 (by code area) seeded changes; the property is named on the first line of notes.md
for A in "$@"; do
  for M in m1 m2 m3; do
    N=/tmp/mut3/$A/_mutants/$M/notes.md
    [ -f $N ] || continue
    PR=$(head -3 $N | grep -oE "C[0-9][0-9]" | head -1)
    [ -n "$PR" ] || PR=C03
    a=$(echo $A | tr 'A-Z' 'a-z')
    PROP=$PR MUTBASE=/tmp/mut3 MUTTAG=r3${a} /verif/tools/confirm_mutant.sh $A $M
  done
done
