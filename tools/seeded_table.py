#!/usr/bin/env python3
"""Prints the markdown table of seeded changes (seeded/*/meta.json + seeded/RESULTS.tsv) for DESIGN.md."""
import glob
import json
import os
import re

HERE = os.path.dirname(os.path.dirname(os.path.abspath(__file__)))
res = {}
p = os.path.join(HERE, 'seeded', 'RESULTS.tsv')
if os.path.exists(p):
    for l in open(p):
        f = l.rstrip('\n').split('\t')
        res[f[0]] = f
print('| seeded change | what it does (title of the author\'s notes; conditions in seeded/<id>/notes.md) | quick check of its property |')
print('|---|---|---|')
for d in sorted(glob.glob(os.path.join(HERE, 'seeded', 'C*'))):
    mid = os.path.basename(d)
    try:
        m = json.load(open(os.path.join(d, 'meta.json')))
    except (OSError, ValueError):
        continue
    if not m.get('confirmed'):
        continue
    notes = m.get('needs_to_manifest', '')
    first = ''
    for line in notes.splitlines():
        line = line.strip(' #*-')
        if len(line) > 25 and not line.lower().startswith(('mutant', 'notes')):
            first = line
            break
    need = ''
    mm = re.search(r'(?is)(needs?|trigger|condition|manifest)[^\n]*\n(.{0,400})', notes)
    if mm:
        need = ' '.join(mm.group(0).split())[:220]
    r = res.get(mid)
    verdict = 'not run'
    if r:
        n = int(r[2].split('=')[1])
        verdict = ('**caught**: ' + ', '.join('`%s`' % k for k in r[4].split()[:2])) if n else '**missed**'
    first = re.sub(r'^(C\d\d|A\d\d)\s*/\s*(round \d /\s*)?(mutant \d|m\d)\s*[-\u2013\u2014:]+\s*', '', first)
    print('| %s | %s | %s |' % (mid, first[:170].replace('|', '/'), verdict))
