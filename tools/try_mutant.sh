#!/bin/bash
# usage: try_mutant.sh <patch.diff> [-R] -- <check> [<check>...]   (runs quick tier against a scratch copy with the patch)
# -R applies the patch in reverse (e.g. a saved fix, to re-create the defect)
set -u
PATCH=$1; shift
REV=""
if [ "$1" = "-R" ]; then REV="-R"; shift; fi
[ "$1" = "--" ] && shift
D=$(mktemp -d /tmp/vr.XXXXXX)
trap 'rm -rf "$D"' EXIT
mkdir -p "$D/src"
cp -r /repo/src/. "$D/src/"
( cd "$D" && patch -s -F0 -p1 $REV < "$PATCH" ) || { echo "patch failed"; exit 2; }
for c in "$@"; do
  VERIF_REPO=$D python3 /verif/vcheck.py $c --tier ${TIER:-quick} 2>&1 | grep -E "VIOLATION|KNOWN-FINDING|INCONCLUSIVE|key :|what:|tier=" | head -${LINES_MAX:-12}
done
