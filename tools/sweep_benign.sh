#!/bin/bash
# Runs every archived property-preserving change in /verif/benign against ALL 20 quick checks (on a scratch copy of /repo, never
# /repo itself) and writes /verif/benign/RESULTS.tsv: any rc!=0 here is a false alarm (rc=1) or an inconclusive run (rc=2) of the machinery.
# usage: sweep_benign.sh [jobs]
cd /verif
J=${1:-1}
rm -f /tmp/benign_results.*.tsv
ls -d benign/*/ | sort > /tmp/benign_list.txt
run_part() {
  part=$1
  awk -v p=$part -v j=$J 'NR % j == p' /tmp/benign_list.txt | while read d; do
    id=$(basename $d)
    tools/try_all.sh /verif/benign/$id/patch.diff 2>&1 | while read line; do
      c=$(echo "$line" | cut -d' ' -f1); rc=$(echo "$line" | cut -d' ' -f2)
      echo -e "$id\t$c\t$rc\t$(echo "$line" | cut -d' ' -f3- | cut -c1-200)" >> /tmp/benign_results.$part.tsv
    done
  done
}
for p in $(seq 0 $((J-1))); do run_part $p & done
wait
cat /tmp/benign_results.*.tsv | sort > benign/RESULTS.tsv
echo "runs: $(wc -l < benign/RESULTS.tsv)  not rc=0: $(grep -vc 'rc=0' benign/RESULTS.tsv)"
