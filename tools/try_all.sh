#!/bin/bash
# usage: try_all.sh <patch.diff> [checks...]  - all (or the given) quick checks against a scratch copy of /repo with the patch
PATCH=$1; shift
IDS=${@:-C01 C02 C03 C04 C05 C06 C07 C08 C09 C10 C11 C12 C13 C14 C15 C16 C17 C18 C19 C20}
D=$(mktemp -d /tmp/vr.XXXXXX)
trap 'rm -rf "$D"' EXIT
mkdir -p "$D/src"; cp -r /repo/src/. "$D/src/"
( cd "$D" && patch -s -F0 -p1 < "$PATCH" ) || { echo "patch failed"; exit 2; }
for c in $IDS; do
  out=$(VERIF_REPO=$D python3 /verif/vcheck.py $c --tier quick 2>&1); rc=$?
  echo "$c rc=$rc $(echo "$out" | grep -E '^  key :' | head -3 | sed 's/  key : //' | tr '\n' ' ') $(echo "$out" | grep -E '^INCONCLUSIVE' | head -1 | cut -c1-160)"
done
