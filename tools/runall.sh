#!/bin/bash
# usage: runall.sh [tier] [ids...]   runs the registered checks sequentially, prints exit code and time per check
TIER=${1:-quick}; shift
IDS=${@:-C01 C02 C03 C04 C05 C06 C07 C08 C09 C10 C11 C12 C13 C14 C15 C16 C17 C18 C19 C20}
cd /verif
for c in $IDS; do
  s=$(date +%s)
  out=$(python3 vcheck.py $c --tier $TIER 2>&1); rc=$?
  e=$(date +%s)
  echo "$c rc=$rc $((e-s))s $(echo "$out" | grep -E 'tier=' | sed 's/.*: //')"
  echo "$out" | grep -E "^VIOLATION|^KNOWN|^INCONCLUSIVE|key :" | head -6
done
