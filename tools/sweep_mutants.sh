#!/bin/bash
# usage: sweep_mutants.sh <out.tsv> <prop>...   runs each /tmp/mut/<prop>/_mutants/m*/patch.diff against that property's quick check
OUT=$1; shift
for P in "$@"; do
  for M in ${MUTBASE:-/tmp/mut}/$P/_mutants/m*; do
    [ -f $M/patch.diff ] || continue
    R=$(TIER=${TIER:-quick} LINES_MAX=40 /verif/tools/try_mutant.sh $M/patch.diff -- $P 2>&1)
    V=$(echo "$R" | grep -c "^VIOLATION")
    K=$(echo "$R" | grep "key :" | head -3 | sed 's/  key : //' | tr '\n' ' ')
    I=$(echo "$R" | grep -c "INCONCLUSIVE")
    echo -e "$P\t$(basename $M)\tviolations=$V\tinconclusive=$I\t$K" >> $OUT
  done
done
