#!/usr/bin/env python3
"""Regenerates /verif/MANIFEST.json from the table below (keeps it schema-valid at all times)."""
import json
import os
import subprocess

HERE = os.path.dirname(os.path.dirname(os.path.abspath(__file__)))

ASAN = 'real library code built from the working tree with clang ASan+UBSan (+libstdc++ assertions)'
CHECKS = {
    # id: (category, technique, text, note, design_ref)
    'C02': ('exploration', 'runtime monitoring: sanitized execution of generated API histories + offline strict CBOR/RFC 8618 parser over every closed output',
            'Seeded exporter histories (all public calls, present-but-empty structures, direct blocks, rotations, 3 compressions, name/fd) run against the '
            + ASAN + '; every closed output is decompressed independently and parsed by a strict RFC 8949 parser and an RFC 8618 schema/index-closure validator written from the RFCs. '
            'Held-on-N-executions, not a proof.',
            'Trusts vlib/cbor.py, vlib/cdns_schema.py (typed from the RFCs), Python zlib/lzma. Empty arrays accepted where the CDDL says [+ x].', 'DESIGN.md section 4 / C02'),
}
NOT_YET = 'check not built yet (work in progress in this session)'


def main():
    props = [json.loads(l) for l in open(os.path.join(HERE, 'properties.jsonl'))]
    try:
        commits = subprocess.check_output(['git', '-C', '/repo', 'log', '--format=%H %s', '--grep=^verif hooks'], text=True).split('\n')
        commits = [c.split()[0] for c in commits if c.strip()]
    except Exception:
        commits = []
    m = {
        'version': 1,
        'setup_cmd': 'python3 vcheck.py setup',
        'hooks': {'guard': 'CDNS_VERIF', 'enable': 'vlib/build.py compiles /repo/src with -DCDNS_VERIF (clang++-14 -fsanitize=address,undefined | thread; g++ plain)',
                  'baseline_off_cmd': 'python3 vcheck.py baseline', 'source_commits': commits, 'add_only': True},
        'engines': [{'name': 'vcheck', 'path': 'vcheck.py', 'serves_properties': sorted(CHECKS),
                     'kind_free_text': 'runtime monitoring: sanitizer-instrumented drivers (drv/) executing generated cases, offline Python oracles (vlib/)'}],
        'checks': [],
        'not_applicable': [],
        'notes': 'All checks: python3 vcheck.py <id> --tier quick|thorough; VERIF_SEED honoured; exit 0 held / 1 violation / 2 inconclusive. See DESIGN.md.',
    }
    for p in props:
        pid = p['id']
        if pid in CHECKS:
            cat, tech, text, note, ref = CHECKS[pid]
            m['checks'].append({
                'property_id': pid,
                'quick_cmd': 'python3 vcheck.py %s --tier quick' % pid,
                'thorough_cmd': 'python3 vcheck.py %s --tier thorough' % pid,
                'evidence_file': 'evidence/%s.json' % pid,
                'replay_cmd_template': 'python3 vcheck.py replay {path}',
                'engine': 'vcheck',
                'level_claimed': {'category': cat, 'text': text, 'design_ref': ref},
                'level_note': note,
                'technique': tech,
            })
        else:
            m['not_applicable'].append({'property_id': pid, 'reason': NOT_YET})
    with open(os.path.join(HERE, 'MANIFEST.json'), 'w') as f:
        json.dump(m, f, indent=1)
        f.write('\n')
    print('MANIFEST.json: %d checks, %d not claimed' % (len(m['checks']), len(m['not_applicable'])))


if __name__ == '__main__':
    main()
