#!/usr/bin/env python3
"""Regenerates /verif/MANIFEST.json from the table below (keeps it schema-valid at all times)."""
import json
import os
import subprocess

HERE = os.path.dirname(os.path.dirname(os.path.abspath(__file__)))

ASAN = 'real library code built from the working tree with clang ASan+UBSan (+libstdc++ assertions)'
EXP = 'exploration'
FE = 'fault_enumeration'
HELD = ' Verdict is "held on the executions observed" (counts in the evidence file), never a proof.'
CHECKS = {
    # id: (category, technique, text, note, design_ref)
    'C01': (EXP, 'runtime monitoring: sanitized exporter runs + offline oracle (reference model vs independent RFC 8618 interpreter vs CdnsReader dump)',
            'Seeded record streams (every optional-field subset, boundary integers per field width, arbitrary byte strings, RR lists) under random hints / tick rates / block sizes / 1-4 parameter sets / interleaved write_block, all compressions, '
            'executed by the ' + ASAN + '. The output bytes are interpreted by an independent strict reader and read back by the real CdnsReader; both must equal the reference model record for record; the reader is used in both documented idioms (fresh block object per block, one object that every block is assigned to).' + HELD,
            'Trusts vlib/model.py (hint filter from RFC 8618 7.3.1.1.1), vlib/cbor.py, vlib/cdns_schema.py. Timestamps normalised, secs*tps+ticks < 2^63.', 'DESIGN.md 4/C01'),
    'C02': (EXP, 'runtime monitoring: sanitized execution of generated API histories + offline strict CBOR/RFC 8618 parser over every closed output',
            'Seeded exporter histories (all public calls, present-but-empty structures, direct blocks, rotations, 3 compressions, name/fd) run against the '
            + ASAN + '; every closed output is decompressed independently and parsed by a strict RFC 8949 parser and an RFC 8618 schema/index-closure validator written from the RFCs (incl. the conditionally mandatory earliest-time). Histories with argument values a file cannot express exactly (record times beyond 2^63 ticks, ticks_per_second = 0) are judged on their outputs only.' + HELD,
            'Trusts vlib/cbor.py, vlib/cdns_schema.py (typed from the RFCs), Python zlib/lzma. Empty arrays accepted where the CDDL says [+ x].', 'DESIGN.md 4/C02'),
    'C03': (EXP, 'sanitizers (ASan+UBSan, libstdc++ assertions, valgrind memcheck, libFuzzer in the thorough tier) over structure-aware hostile inputs; allocation-size and CPU monitors',
            'Structure-aware mutations of valid files (22 kinds: length fields to 2^64-1, boundary integers, wrong majors, nesting to 200000, truncation, malformed names/addresses ...) through CdnsReader, every accessor and renderer, raw decoder '
            'operations and the five CLI tools, all ' + ASAN + '; a sample under valgrind memcheck on an un-sanitized build; thorough adds 16 x 200000 coverage-guided libFuzzer executions. Oracle: no report, no signal, only std::exception-derived failures, '
            'largest single allocation <= 2048*len+1MiB, CPU <= 5 s.' + HELD,
            'Red-zone sanitizers miss intra-object overflows (libstdc++ assertions and memcheck narrow that gap); resource envelopes are generous linear bounds.', 'DESIGN.md 4/C03'),
    'C04': (EXP, 'runtime monitoring: sanitized exporter runs + offline hint oracle (member/bit table from the RFC, table reachability, canary byte search)',
            'Records with every optional field set and unique canary byte strings, and sparse records made only of excluded fields, under each single hint bit cleared, each bit alone and random masks (also hints edited in place and taken into use by a rotation); the independent parser checks that no member '
            'whose bit is clear appears, every table entry is reachable, no disabled value occurs anywhere in the bytes and the preamble states the masks applied.' + HELD,
            'Hint-applying (generic) calls only, on the exporter and on blocks the application configures itself (constructed, moved or copied into place); the low-level add_* calls taking ready-made items bypass hints by documented design.', 'DESIGN.md 4/C04'),
    'C05': (EXP, 'runtime monitoring: sanitized decoder/reader over inputs of controlled length and every relevant prefix, hook assertion on the decoder window',
            'Decoder: inputs of length 0, k*65535 and k*65535+-1..3, multi-byte items straddling a window boundary and cut inside, unopened/missing/directory streams x 12 first operations - every operation after exhaustion must throw CdnsDecoderEnd. '
            'Reader: every prefix of valid multi-block files (exhaustive around block boundaries and window multiples, steered so that boundaries coincide) and EVERY prefix of small files holding all record kinds, must return exactly the complete blocks, identical to the full file, then end-of-input (CdnsDecoderEnd).' + HELD,
            'Block end offsets come from the independent parser; hook = friend access guarded by CDNS_VERIF.', 'DESIGN.md 4/C05'),
    'C06': (EXP, 'runtime monitoring: encoder driven at every buffer fill level (observed through a hook) against an independent reference encoder',
            '18 public write operations x every staging-buffer fill level 0..2048 (enumerated completely, coverage measured through the hook), all boundary values at the last 20 fill levels, all 2^8 / 2^16 values of the narrow overloads, '
            'strings of 0..3x buffer size, random call sequences over name/fd x none/gzip/xz; each return value and the output bytes are compared with vlib/cbor.py reference encodings.' + HELD,
            'Fill-level steering uses public write_bytestring calls (logged and checked like any other call).', 'DESIGN.md 4/C06'),
    'C07': (EXP, 'runtime monitoring: sanitized decoder over generated well-formed RFC 8949 items with ground truth and sentinels',
            'Well-formed items of every major type, all head widths, chunked strings, tags, floats, simple values, nesting up to 20000, each followed by a unique sentinel, placed at every offset 65535-12..65535+12 and at random offsets; '
            'the matching read operation must return the RFC value, skip_item must leave the sentinel next, then end-of-input.' + HELD,
            'Negative integers restricted to the int64 range of the return type.', 'DESIGN.md 4/C07'),
    'C08': (EXP, 'runtime monitoring: metamorphic testing - semantics-preserving re-encodings of valid files through the sanitized reader',
            'Valid exporter outputs are re-encoded by compositions of definite<->indefinite containers, chunked strings, non-minimal heads, map-member permutation and unknown integer keys with arbitrary well-formed values; '
            'the CdnsReader dump (preamble, tables, generic records) must be identical to that of the original, also when the same reader thread is given damaged inputs in between. The rewriter is self-checked with the independent interpreter.' + HELD,
            'Trusts vlib/rewrite.py only as far as its self-check (independent interpretation unchanged).', 'DESIGN.md 4/C08'),
    'C09': (EXP, 'runtime monitoring: sanitized write->read of random preambles, compared member for member with the value written and with the independent interpretation',
            'Random FilePreamble values (versions 0..255, private version present/absent, 1-8 parameter sets, every optional subset, full-width integers, lists of 0..40 codes, UTF-8, collection parameters absent/empty/partial/full) written by the exporter and read by CdnsReader; wide members swept over every alignment relative to the 2048-byte encoder buffer and the 65535-byte decoder window.' + HELD,
            'Empty interface/server-address/VLAN lists are indistinguishable from absent ones in the API.', 'DESIGN.md 4/C09'),
    'C10': (EXP, 'runtime monitoring: byte-count conservation oracle over logged API return values and independently measured output sizes',
            'Per output, the sum of the values returned by buffer_*/write_block/rotate_output equals the uncompressed size measured by independent decompression (+1 at destruction); per encoder call the return equals the reference encoding length.' + HELD,
            'Sizes measured after independent gzip/xz decompression.', 'DESIGN.md 4/C10'),
    'C11': (EXP, 'runtime monitoring: table histories against a list+dict model, hook-checked structural invariant, output-side duplicate/reachability oracle',
            'Interleaved add/get/clear over the nine block tables (small pools incl. values differing in one optional member and equal-hash values, large domains) against a reference model, with the index/storage invariant asserted through the hook; '
            'exporter streams across many flushes checked for duplicate and unreachable table entries and for equality of the entries reached through stored indices with the values handed in.' + HELD,
            'Hook = friend access to BlockTable internals guarded by CDNS_VERIF.', 'DESIGN.md 4/C11'),
    'C12': (EXP, 'runtime monitoring: bounded-exhaustive call sequences against a reference state machine (conservation / flush oracle)',
            'ALL call sequences up to length 4 (quick) / 5 (thorough) over {qr, qr unstorable under set 1, aec key1, aec key2, mm, write_block, set_active 0/1} x max_block_items 0..3, counters queried after every call, then random sequences up to 300 calls; '
            'oracle: return non-zero iff a block was written, five counters, active index, block sizes, conservation of records through the independent interpreter.' + HELD,
            'Exhaustive only within the stated alphabet and length.', 'DESIGN.md 4/C12'),
    'C13': (EXP, 'runtime monitoring: exporter histories with rotations; snapshot-at-rotation vs final bytes, per-output validity, record conservation across outputs',
            'Histories with rotate_output(name|fd, export true/false), consecutive rotations, add/set/edit block parameters, all compressions, plus cases padded until the closing break is written with the staging buffer exactly full; '
            'every closed output must be valid by itself, unchanged after the rotation returned, and the records over all outputs must equal the model stream.' + HELD,
            'Rotations stay within the output kind the exporter was constructed with.', 'DESIGN.md 4/C13'),
    'C14': (EXP, 'runtime monitoring: chunk sequences through the real writers, independent decompression as oracle, ASan stack/heap monitoring',
            'Chunk sequences (compressible, random, empty; 0 B .. 32 MiB per write; 0-6 rotations) through the gzip/xz/plain writers, named and descriptor outputs; exactly one complete stream, right suffix, decompressed bytes == bytes written; also rotation onto the name being written, a failing first destination (/dev/full) and 8 concurrent independent writers.' + HELD,
            'Python zlib/lzma are the independent implementation.', 'DESIGN.md 4/C14'),
    'C15': (FE, 'fault injection: process killed before every output-related system call (interposed write/writev/rename), file-system state oracle',
            'For each scenario ({plain,gzip,xz} x {single, 3 rotations, onto existing names, onto the current name, destruction +- buffered data}) a dry run counts the output calls, then one process per k is killed immediately before its k-th call; '
            'every file under a final name must be the one from before or a complete valid output; all data goes to *.part. The same rule under write faults, with a destination whose .part name cannot be created, and with rename() itself failing (EXDEV/EBUSY) at every later crash point. Crash points are enumerated completely per scenario, scenarios are sampled.',
            'Crash = process death (no power loss). Interposition in the driver executable, no repository hook.', 'DESIGN.md 4/C15'),
    'C16': (FE, 'fault injection: every write/writev of each scenario fails (ENOSPC/EIO/short, once or persistently), exception/recovery oracle over the API log',
            'For every write k of every scenario x {name,fd}: the call is failed or cut short; oracle: some API call up to and including the closing rotate_output threw (unless no byte was lost), the failed block is still buffered, '
            'the next rotate_output to a healthy destination succeeds and write_block() then produces a complete valid file with exactly those records. Fault points enumerated completely per scenario.',
            '"no later than the closing rotate_output" read as: some call between the fault and that rotation (inclusive) threw; destruction is outside the guarantee.', 'DESIGN.md 4/C16'),
    'C17': (EXP, 'runtime monitoring: UBSan-instrumented timestamp arithmetic against Python big integers; block-side earliest-time oracle',
            'Exhaustive small grid, boundary and random tuples for get_time_offset / add_time_offset / < / <= incl. INT64_MIN, checked against exact integer arithmetic; blocks built from shuffled timed/untimed records: earliest <= every record time, times recovered exactly, also after the active tick rate was edited in place and taken into use by a rotation.' + HELD,
            'Results not representable in the signed 64-bit tick counter: only "refused or exact, no UB" asserted.', 'DESIGN.md 4/C17'),
    'C18': (EXP, 'runtime monitoring: the real cdns-merge / cdns-itemcount binaries (ASan+UBSan) on generated input tuples, independent interpretation as oracle',
            'Tuples of 1-6 inputs (different versions, private version, parameter sets, sibling captures differing in one member, re-encoded variants, empty/garbage/missing/truncated members, duplicates); merged blocks must equal the non-empty blocks of the readable, '
            'version-compatible inputs in order with equal records, statistics and block-parameter values; itemcount output vs independently parsed counts.' + HELD,
            'Expected blocks of truncated inputs computed from block end offsets of the independent parse.', 'DESIGN.md 4/C18'),
    'C19': (EXP, 'runtime monitoring: copy/move histories with a freshly built twin as oracle, ASan for dangling references, hook-checked index ownership',
            'A block (built through the API or returned by CdnsReader) is copied by copy/move construction/assignment (CdnsBlock and CdnsBlockRead); the source is kept, mutated, cleared or destroyed; every following operation on the copy must agree with a freshly built twin; '
            'the hook asserts that every index key reference points into the table own storage.' + HELD,
            'Generic reads compared only for reader-returned blocks.', 'DESIGN.md 4/C19'),
    'C20': (EXP, 'ThreadSanitizer (happens-before race detection) over concurrent independent workloads + equality with the sequential run',
            'Independent export/read/render workloads on 2-16 threads of one TSan-instrumented process with injected yields; zero TSan report blocks, and logs, decoded dumps and output bytes identical to the same workloads run on one thread. '
            'TSan generalises each observed schedule to all schedules with the same synchronisation order.' + HELD,
            'zlib / liblzma / libstdc++ are not instrumented.', 'DESIGN.md 4/C20'),
}
NOT_YET = 'check not built yet (work in progress in this session)'


def main():
    props = [json.loads(l) for l in open(os.path.join(HERE, 'properties.jsonl'))]
    try:
        commits = subprocess.check_output(['git', '-C', '/repo', 'log', '--format=%H %s', '--grep=^verif hooks'], text=True).split('\n')
        commits = [c.split()[0] for c in commits if c.strip()]
    except Exception:
        commits = []
    m = {
        'version': 1,
        'setup_cmd': 'python3 vcheck.py setup',
        'hooks': {'guard': 'CDNS_VERIF', 'enable': 'vlib/build.py compiles /repo/src with -DCDNS_VERIF (clang++-14 -fsanitize=address,undefined | thread; g++ plain)',
                  'baseline_off_cmd': 'python3 vcheck.py baseline', 'source_commits': commits, 'add_only': True},
        'engines': [{'name': 'vcheck', 'path': 'vcheck.py', 'serves_properties': sorted(CHECKS),
                     'kind_free_text': 'runtime monitoring: sanitizer-instrumented drivers (drv/) executing generated cases, offline Python oracles (vlib/)'}],
        'checks': [],
        'not_applicable': [],
        'notes': 'All checks: python3 vcheck.py <id> --tier quick|thorough; VERIF_SEED honoured; exit 0 held / 1 violation / 2 inconclusive. See DESIGN.md.',
    }
    for p in props:
        pid = p['id']
        if pid in CHECKS:
            cat, tech, text, note, ref = CHECKS[pid]
            m['checks'].append({
                'property_id': pid,
                'quick_cmd': 'python3 vcheck.py %s --tier quick' % pid,
                'thorough_cmd': 'python3 vcheck.py %s --tier thorough' % pid,
                'evidence_file': 'evidence/%s.json' % pid,
                'replay_cmd_template': 'python3 vcheck.py replay {path}',
                'engine': 'vcheck',
                'level_claimed': {'category': cat, 'text': text, 'design_ref': ref},
                'level_note': note,
                'technique': tech,
            })
        else:
            m['not_applicable'].append({'property_id': pid, 'reason': NOT_YET})
    with open(os.path.join(HERE, 'MANIFEST.json'), 'w') as f:
        json.dump(m, f, indent=1)
        f.write('\n')
    print('MANIFEST.json: %d checks, %d not claimed' % (len(m['checks']), len(m['not_applicable'])))


if __name__ == '__main__':
    main()
